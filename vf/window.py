"""C08 window automaton: fed online with every real main_loop iteration.  Independent of the repository's own
bookkeeping except for reading the counters in the before-snapshot as 'what this endpoint promised to expect next';
the promises themselves are checked against the monitor's own history (IDs executed, IDs answered, first reply bytes)."""
from vf import observe
from vf.ref import codec, ikecrypto

EXCH = observe.EXCH


def _hdr(data):
    try:
        return codec.decode_header(data)
    except codec.DecodeError:
        return None


class WindowMonitor:
    def __init__(self, ck):
        self.ck = ck
        self.reset()

    def reset(self):
        self.objs = {}            # oid -> IkeSa (strong refs keep ids unique)
        self.executed = {}        # oid -> {request mid: exch}
        self.first_reply = {}     # (oid, mid) -> bytes first returned for that request ID
        self.accepted_resp = {}   # oid -> set of response mids whose handler ran
        self.sent_req = {}        # (ep, spi_i, my_spi) -> list of (mid, bytes, exch)
        self.expect_r = {}        # oid -> monitor's own expected-request counter
        self.expect_s = {}        # oid -> monitor's own outstanding request id (or None)

    def _find(self, ep, oid):
        return self.objs.get(oid)

    def on_step(self, sim, ep, rec):
        ck = self.ck
        case = getattr(sim, 'case', None)
        for sa in list(ep.ctl.ike_sas) + [x.new_ike_sa for x in ep.ctl.ike_sas if x.new_ike_sa is not None]:
            self.objs.setdefault(id(sa), sa)
        before = {s['oid']: s for s in rec.before}
        after = {s['oid']: s for s in rec.after}
        handlers = {}
        for (oid, name, mid, ex) in rec.handlers:
            handlers.setdefault(oid, []).append((name, mid, ex))
        ck.count('win.steps')
        if rec.kind == 'udp' and rec.input is not None:
            self._delivered(sim, ep, rec, before, after, handlers, case)
        # handler entries in steps that delivered nothing cannot exist
        if rec.kind != 'udp' and rec.handlers:
            ck.violation('handler-ran-without-a-datagram', {'handlers': rec.handlers, 'kind': rec.kind}, case)
        self._emitted(sim, ep, rec, after, case)

    # ------------------------------------------------------------------ receive side
    def _delivered(self, sim, ep, rec, before, after, handlers, case):
        ck = self.ck
        data = rec.input[2]
        h = _hdr(data)
        if h is None:
            return
        resp = bool(h['flags'] & 0x20)
        if not rec.routed:
            if rec.handlers:
                ck.violation('handler-ran-for-unrouted-datagram', {}, case)
            # a datagram the controller put aside before any IKE_SA saw it. If an IKE_SA of the table owns its SPIs, the datagram is authentic under that IKE_SA's
            # keys and it is a copy of the request answered last, the stored response is still owed ("on every IKE_SA": whatever state it is in)
            if not resp and h['exch'] != 34:
                for s_ in rec.before:
                    sa_ = self.objs.get(s_['oid'])
                    if sa_ is None or s_['oid'] not in after or not s_['has_keys'] or (h['spi_i'], h['spi_r']) != (bytes(sa_.spi_i), bytes(sa_.spi_r)):
                        continue
                    if bool(h['flags'] & 0x08) == sa_.is_initiator:
                        continue
                    keys = observe.crypto_keys(sa_.peer_crypto)
                    if keys is None or not ikecrypto.sk_verify(data, keys[0], keys[1]):
                        continue
                    ck.count('win.authentic_request_never_shown_to_its_ike_sa')
                    if h['mid'] == s_['peer_msg_id'] - 1 and (s_['oid'], h['mid']) in self.first_reply:
                        ck.count('win.replay_of_previous_request')
                        replies = [bytes(d[2]) for d in rec.sent if _hdr(d[2]) and _hdr(d[2])['flags'] & 0x20]
                        if replies != [self.first_reply[(s_['oid'], h['mid'])]]:
                            ck.violation(f'retransmitted-request-not-answered-with-the-stored-response:{EXCH.get(h["exch"], str(h["exch"]))}:put-aside-before-the-ike-sa-saw-it',
                                         {'state': s_['state'], 'trace': sim.trace[-10:]}, case)
            return
        oid = rec.routed[0][0]
        sa = self.objs.get(oid)
        b = before.get(oid)
        hs = handlers.get(oid, [])
        other = [o for o in handlers if o != oid]
        if other:
            ck.violation('handler-ran-on-another-ike-sa-than-the-routed-one', {'handlers': rec.handlers}, case)
        if sa is None:
            return
        # authentic?
        if h['exch'] == 34:
            authentic = b is None or not b['has_keys']      # cleartext is only "authentic traffic" before keys exist
        else:
            keys = observe.crypto_keys(sa.peer_crypto)
            authentic = keys is not None and ikecrypto.sk_verify(data, keys[0], keys[1])
        if not authentic:
            ck.count('win.non_authentic_delivered')
            if hs:
                ck.violation(f'handler-ran-for-non-authentic-datagram:{hs[0][0]}', {'hdr': h}, case)
            return
        flag_ok = bool(h['flags'] & 0x08) != sa.is_initiator and (h['exch'] == 34 or (h['spi_i'], h['spi_r']) == (bytes(sa.spi_i), bytes(sa.spi_r)))
        mid = h['mid']
        exn = EXCH.get(h['exch'], str(h['exch']))
        a = after.get(oid)
        unchanged = b is not None and a is not None and all(b[k] == a[k] for k in b if k not in ('dpd',))
        if not resp:
            r = b['peer_msg_id'] if b is not None else 0      # a fresh responder object expects 0
            mine = self.expect_r.setdefault(oid, r)
            if b is not None and mine != r:
                ck.violation('expected-request-id-moved-without-an-executed-request', {'monitor': mine, 'ike_sa': r, 'state': b['state']}, case)
                self.expect_r[oid] = mine = r
            rel = 'next' if mid == mine else 'previous' if mid == mine - 1 else 'older' if mid < mine else 'future'
            if not flag_ok:
                rel = 'wrong-flag-or-spi'
            ck.count(f'win.request.{rel}.{exn}')
            ck.seen('win.request_classes', (rel, exn, b['state'] if b else 'new'))
            if hs:
                name, hmid, hex_ = hs[0]
                if len(hs) > 1:
                    ck.violation('request-executed-twice-in-one-step', {'handlers': hs}, case)
                if rel != 'next':
                    ck.violation(f'request-executed-outside-the-window:{rel}:{exn}', {'expected': mine, 'got': mid, 'state': b['state'] if b else None,
                                                                                      'trace': sim.trace[-10:]}, case)
                if mid in self.executed.setdefault(oid, {}):
                    ck.violation(f'request-id-executed-again:{exn}', {'mid': mid, 'trace': sim.trace[-10:]}, case)
                self.executed[oid][mid] = h['exch']
                self.expect_r[oid] = mid + 1
                reply = [d for d in rec.sent if d[1] == rec.input[0]]
                if reply and (oid, mid) not in self.first_reply:
                    self.first_reply[(oid, mid)] = bytes(reply[0][2])
                if a is not None and a['peer_msg_id'] != mid + 1:
                    ck.violation('expected-request-id-not-advanced-after-execution', {'after': a['peer_msg_id'], 'mid': mid}, case)
            else:
                # not executed: nothing may change; 'previous' gets exactly the stored reply, anything else gets nothing
                replies = [bytes(d[2]) for d in rec.sent if _hdr(d[2]) and _hdr(d[2])['flags'] & 0x20]
                if rec.nl:
                    ck.violation(f'unexecuted-request-touched-the-kernel:{rel}:{exn}', {'nl': [r_['msg']['name'] for r_ in rec.nl if r_['msg']]}, case)
                if not unchanged and b is not None:
                    diff = [k for k in b if a is None or b[k] != a[k]] if a is not None else ['removed']
                    diff = [k for k in diff if k != 'dpd']
                    # timers of the same iteration (retransmission of OUR request) are not an effect of the datagram
                    if set(diff) - {'retransmit_at', 'retransmissions'}:
                        ck.violation(f'unexecuted-request-changed-the-ike-sa:{rel}:{exn}:{"+".join(diff)}', {'state': b['state'], 'trace': sim.trace[-10:]}, case)
                if rel == 'previous' and (oid, mid) in self.first_reply:
                    ck.count('win.replay_of_previous_request')
                    if replies != [self.first_reply[(oid, mid)]]:
                        ck.violation(f'retransmitted-request-not-answered-with-the-stored-response:{exn}:{"nothing" if not replies else "other-bytes"}',
                                     {'state': b['state'] if b else None, 'trace': sim.trace[-10:]}, case)
                    else:
                        ck.count('win.replay_answered_byte_identically')
                elif rel in ('older', 'future', 'wrong-flag-or-spi'):
                    ck.count(f'win.dropped_request.{rel}')
                    if replies:
                        ck.violation(f'request-outside-the-window-was-answered:{rel}:{exn}', {'trace': sim.trace[-10:]}, case)
                elif rel == 'next' and b is not None and b['state'] not in ('INIT_REQ_SENT', 'AUTH_REQ_SENT'):
                    # an in-window authentic request that is not executed: only allowed while the initial exchanges are unfinished
                    if h['exch'] in (34, 35, 36, 37):
                        ck.violation(f'in-window-request-not-executed:{exn}:{b["state"]}', {'trace': sim.trace[-10:]}, case)
        else:
            s = b['my_msg_id'] if b is not None else None
            outstanding = b is not None and (b['state'].endswith('_REQ_SENT'))
            rel = 'outstanding' if (outstanding and mid == s and flag_ok) else 'other'
            ck.count(f'win.response.{rel}.{exn}')
            ck.seen('win.response_classes', (rel, exn, b['state'] if b else 'new'))
            if hs:
                if rel != 'outstanding':
                    ck.violation(f'response-accepted-without-matching-outstanding-request:{exn}', {'state': b['state'] if b else None, 'mid': mid, 'my_msg_id': s,
                                                                                                   'trace': sim.trace[-10:]}, case)
                if mid in self.accepted_resp.setdefault(oid, set()) and not (h['exch'] == 34 and mid == 0):
                    ck.violation(f'response-id-accepted-twice:{exn}', {'mid': mid}, case)
                self.accepted_resp[oid].add(mid)
            else:
                if rel == 'other':
                    ck.count('win.dropped_response')
                    if rec.nl:
                        ck.violation(f'dropped-response-touched-the-kernel:{exn}', {}, case)
                    if not unchanged and b is not None and a is not None:
                        diff = [k for k in b if b[k] != a[k] and k not in ('dpd', 'retransmit_at', 'retransmissions')]
                        if diff:
                            ck.violation(f'dropped-response-changed-the-ike-sa:{exn}:{"+".join(diff)}', {'state': b['state'], 'trace': sim.trace[-10:]}, case)

    # ------------------------------------------------------------------ send side
    def _emitted(self, sim, ep, rec, after, case):
        ck = self.ck
        for (src, dst, data) in rec.sent:
            h = _hdr(data)
            if h is None:
                ck.violation('emitted-datagram-without-ike-header', {'data': data[:40]}, case)
                continue
            ck.count('win.emitted')
            resp = bool(h['flags'] & 0x20)
            if (h['major'], h['minor']) != (2, 0):
                ck.violation('emitted-version-not-2.0', {'hdr': h}, case)
            if h['flags'] & ~0x28:
                ck.violation('emitted-reserved-or-version-flag-set', {'flags': h['flags']}, case)
            if h['length'] != len(data):
                ck.violation('emitted-length-field-wrong', {'hdr': h, 'len': len(data)}, case)
            # sender object: the one whose local SPI is in the slot the I flag assigns to the sender
            my_spi = h['spi_i'] if h['flags'] & 0x08 else h['spi_r']
            sa = next((x for x in self.objs.values() if bytes(x.my_spi) == my_spi and str(x.my_addr) == src), None)
            if sa is None:
                # a responder object that refuses the IKE_SA_INIT request (INVALID_KE_PAYLOAD, NO_PROPOSAL_CHOSEN, COOKIE) is created and
                # dropped within the same iteration: its reply can only be checked against the request it answers
                rh = _hdr(rec.input[2]) if (rec.kind == 'udp' and rec.input) else None
                if resp and h['exch'] == 34 and rh is not None and not rh['flags'] & 0x20 and (rh['exch'], rh['mid'], rh['spi_i']) == (34, h['mid'], h['spi_i']) \
                        and not h['flags'] & 0x08:
                    ck.count('win.emitted_by_transient_responder')
                    continue
                ck.violation(f'emitted-datagram-with-spis-of-no-local-ike-sa:{EXCH.get(h["exch"], h["exch"])}', {'hdr': {k: v for k, v in h.items()}}, case)
                continue
            if bool(h['flags'] & 0x08) != sa.is_initiator:
                ck.violation('emitted-initiator-flag-does-not-match-role', {'hdr': h}, case)
            peer_slot = h['spi_r'] if h['flags'] & 0x08 else h['spi_i']
            first_init = h['exch'] == 34 and not resp
            if first_init:
                ck.count('win.emitted_ike_sa_init_requests')
                if h['spi_r'] != b'\0' * 8:
                    # RFC 7296 3.1: zero in the first message of the initial exchange, "including repeats of that message including a cookie" (and after INVALID_KE_PAYLOAD)
                    ck.violation('ike-sa-init-request-carries-a-non-zero-responder-spi', {'hdr': h, 'ike_sa_peer_spi': bytes(sa.peer_spi)}, case)
            if peer_slot != bytes(sa.peer_spi) and not (first_init and peer_slot == b'\0' * 8) and not (h['exch'] == 34 and resp):
                ck.violation('emitted-peer-spi-wrong', {'hdr': h, 'peer_spi': bytes(sa.peer_spi)}, case)
            if resp:
                # a response answers the request delivered in this very step: same exchange type and Message ID
                rh = _hdr(rec.input[2]) if (rec.kind == 'udp' and rec.input) else None
                if rh is None or rh['flags'] & 0x20:
                    ck.violation('response-emitted-without-a-request-in-this-step', {'hdr': h, 'kind': rec.kind}, case)
                elif (rh['exch'], rh['mid']) != (h['exch'], h['mid']):
                    ck.violation('response-exchange-type-or-id-differs-from-its-request', {'request': (rh['exch'], rh['mid']), 'response': (h['exch'], h['mid'])}, case)
                ck.count('win.emitted_responses')
                continue
            # requests: consecutive IDs from 0, one outstanding at a time
            ck.count('win.emitted_requests')
            key = (ep.name, id(sa))
            lst = self.sent_req.setdefault(key, [])
            if not lst:
                # every IKE_SA object (original initiator, original responder, rekeyed successor) numbers its own requests from 0
                if h['mid'] != 0:
                    ck.violation(f'first-request-of-an-ike-sa-has-id-{min(h["mid"], 9)}', {'hdr': h}, case)
            else:
                lm, lbytes, lex = lst[-1]
                if h['mid'] == lm:
                    same = bytes(data) == lbytes
                    if same:
                        ck.count('win.retransmissions_seen')
                    elif not (h['exch'] == 34 and lm == 0):
                        ck.violation(f'request-id-reused-with-different-bytes:{EXCH.get(h["exch"], h["exch"])}', {'mid': lm, 'trace': sim.trace[-10:]}, case)
                elif h['mid'] == lm + 1:
                    if lm not in self.accepted_resp.get(id(sa), set()):
                        ck.violation('next-request-sent-before-the-response-to-the-previous-one-was-accepted', {'mid': h['mid'], 'trace': sim.trace[-10:]}, case)
                else:
                    ck.violation(f'request-ids-not-consecutive:{lm}->{min(h["mid"], lm + 9)}', {'trace': sim.trace[-10:]}, case)
            lst.append((h['mid'], bytes(data), h['exch']))
