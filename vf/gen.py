"""Generators: well-formed abstract IKEv2 messages (reference form), a locator of every length / next /
count field of an encoded message, and the hostile corpora derived from them."""
import struct

from vf.ref import codec

SA, KE, IDI, IDR, AUTH, NONCE, NOTIFY, DELETE, VENDOR, TSI, TSR, SK = 33, 34, 35, 36, 39, 40, 41, 42, 43, 44, 45, 46


def rb(rng, n):
    return bytes(rng.randrange(256) for _ in range(n))


def gen_transform(rng, ttype=None):
    ttype = ttype or rng.choice([1, 2, 3, 4, 5])
    ids = {1: [12, 12, 3, 11, 13], 2: [2, 5, 7, 1], 3: [2, 12, 14, 1, 5], 4: [14, 15, 19, 20, 21, 2, 0], 5: [0, 1]}[ttype]
    tid = rng.choice(ids)
    keylen = rng.choice([128, 192, 256]) if (ttype == 1 and tid in (12, 13) and rng.random() < 0.85) else None
    return {'type': ttype, 'id': tid, 'keylen': keylen}


def gen_proposal(rng, num, proto=None, spi_size=None):
    proto = proto if proto is not None else rng.choice([1, 2, 3])
    if spi_size is None:
        spi_size = rng.choice([0, 8] if proto == 1 else [4, 4, 0])
    trs = [gen_transform(rng) for _ in range(rng.randrange(1, 9))]
    if rng.random() < 0.2:
        # a transform named twice (a list merged from two sources): legal on the wire, and the repeated one may be the last
        trs.insert(rng.randrange(len(trs) + 1), dict(trs[-1] if rng.random() < 0.6 else rng.choice(trs)))
    return {'num': num, 'proto': proto, 'spi': rb(rng, spi_size), 'transforms': trs}


def gen_selector(rng, v6=None, unusual=False):
    v6 = rng.random() < 0.4 if v6 is None else v6
    n = 16 if v6 else 4
    a, b = sorted([rb(rng, n), rb(rng, n)])
    p1, p2 = sorted([rng.choice([0, 1, 23, 500, 65535, rng.randrange(65536)]) for _ in range(2)])
    if unusual and rng.random() < 0.2:
        # RFC 7296 3.13.1: start port 65535 with end port 0 means OPAQUE; a codec has to carry any pair (and any address pair) as it stands
        p1, p2 = rng.choice([(65535, 0), (p2, p1), (p2, p1)])
        if rng.random() < 0.3:
            a, b = b, a
    return {'tstype': 8 if v6 else 7, 'ipproto': rng.choice([0, 1, 6, 17, 58, 135, rng.randrange(256)]), 'sport': p1, 'eport': p2,
            'saddr': a, 'eaddr': b}


def gen_payload(rng, ptype):
    p = {'type': ptype, 'critical': False}
    if ptype == SA:
        p['proposals'] = [gen_proposal(rng, i + 1) for i in range(rng.randrange(1, 5))]
        # proposals that differ only in number / SPI / transform order (the same suite offered twice) are legal and common
        if len(p['proposals']) > 1 and rng.random() < 0.3:
            i, j = rng.sample(range(len(p['proposals'])), 2)
            src = p['proposals'][i]
            trs = [dict(t) for t in src['transforms']]
            if rng.random() < 0.5:
                rng.shuffle(trs)
            p['proposals'][j] = {'num': p['proposals'][j]['num'], 'proto': src['proto'], 'spi': rb(rng, len(src['spi'])), 'transforms': trs}
    elif ptype == KE:
        p.update(group=rng.choice([14, 15, 19, 20, 21, 2, 31]), data=rb(rng, rng.choice([1, 32, 64, 132, 256])))
    elif ptype in (IDI, IDR):
        t = rng.choice([1, 2, 3, 5, 9, 11, 200])
        data = {1: rb(rng, 4), 5: rb(rng, 16), 2: b'host-%d.example.org' % rng.randrange(1000),
                3: b'user%d@example.org' % rng.randrange(1000)}.get(t, rb(rng, rng.randrange(0, 40)))
        p.update(idtype=t, data=data)
    elif ptype == AUTH:
        p.update(method=rng.choice([1, 2, 3, 9]), data=rb(rng, rng.choice([0, 20, 32, 64, 128])))
    elif ptype == NONCE:
        p.update(data=rb(rng, rng.choice([16, 17, 32, 255, 256])))
    elif ptype == NOTIFY:
        spi = rb(rng, rng.choice([0, 0, 4, 8]))
        p.update(proto=rng.choice([0, 1, 2, 3]), spi=spi, ntype=rng.choice([1, 7, 14, 17, 24, 38, 43, 44, 16390, 16391, 16393, 40000]),
                 data=rb(rng, rng.choice([0, 0, 2, 20, 32])))
    elif ptype == DELETE:
        sz = rng.choice([0, 4, 8])
        n = 0 if sz == 0 else rng.randrange(1, 6)
        p.update(proto=rng.choice([1, 2, 3]), spis=[rb(rng, sz) for _ in range(n)])
    elif ptype == VENDOR:
        p.update(data=(b'vendor-' + str(rng.randrange(10 ** 6)).encode()) if rng.random() < 0.6 else rb(rng, rng.randrange(1, 40)))
    elif ptype in (TSI, TSR):
        p['selectors'] = [gen_selector(rng, unusual=True) for _ in range(rng.randrange(1, 5))]
    else:
        p['body'] = rb(rng, rng.randrange(0, 30))
    return p


KNOWN_TYPES = [SA, KE, IDI, IDR, AUTH, NONCE, NOTIFY, DELETE, VENDOR, TSI, TSR]


def gen_header(rng, exch=None, spis=None):
    si, sr = spis or (rb(rng, 8), rng.choice([b'\0' * 8, rb(rng, 8)]))
    return {'spi_i': si, 'spi_r': sr, 'major': 2, 'minor': 0, 'exch': exch if exch is not None else rng.choice([34, 35, 36, 37, 37, 99]),
            'flags': rng.choice([0x00, 0x08, 0x20, 0x28, 0x10, 0x18, 0x30, 0x38]),
            'mid': rng.choice([0, 1, 2, 2 ** 32 - 1, rng.randrange(2 ** 32)])}


def gen_message(rng, n_payloads=None, with_unknown=False):
    m = gen_header(rng)
    k = rng.randrange(0, 8) if n_payloads is None else n_payloads
    m['payloads'] = [gen_payload(rng, rng.choice(KNOWN_TYPES)) for _ in range(k)]
    if with_unknown and rng.random() < 0.5:
        m['payloads'].insert(rng.randrange(len(m['payloads']) + 1), {'type': rng.choice([37, 38, 47, 48, 49, 200, 255]), 'critical': False,
                                                                     'body': rb(rng, rng.randrange(0, 24))})
    return m


def typical_messages(rng):
    """One well-formed message per exchange kind, rich in nested structure (bases for mutation)."""
    out = {}
    h = gen_header(rng, 34)
    h['flags'], h['mid'] = 0x08, 0
    h['payloads'] = [{'type': NOTIFY, 'critical': False, 'proto': 0, 'spi': b'', 'ntype': 16390, 'data': rb(rng, 32)},
                     {'type': SA, 'critical': False, 'proposals': [
                         {'num': 1, 'proto': 1, 'spi': b'', 'transforms': [{'type': 1, 'id': 12, 'keylen': 256}, {'type': 1, 'id': 12, 'keylen': 128},
                                                                           {'type': 3, 'id': 12, 'keylen': None}, {'type': 2, 'id': 5, 'keylen': None},
                                                                           {'type': 4, 'id': 19, 'keylen': None}, {'type': 4, 'id': 14, 'keylen': None}]},
                         {'num': 2, 'proto': 1, 'spi': rb(rng, 8), 'transforms': [{'type': 1, 'id': 12, 'keylen': 128}, {'type': 3, 'id': 2, 'keylen': None},
                                                                                  {'type': 2, 'id': 2, 'keylen': None}, {'type': 4, 'id': 14, 'keylen': None}]}]},
                     {'type': NONCE, 'critical': False, 'data': rb(rng, 32)},
                     {'type': KE, 'critical': False, 'group': 19, 'data': rb(rng, 64)},
                     {'type': VENDOR, 'critical': False, 'data': b'pyikev2-0.1'}]
    out['ike_sa_init'] = h
    auth = [{'type': TSI, 'critical': False, 'selectors': [gen_selector(rng, False), gen_selector(rng, True)]},
            {'type': TSR, 'critical': False, 'selectors': [gen_selector(rng, False)]},
            {'type': SA, 'critical': False, 'proposals': [{'num': 1, 'proto': 3, 'spi': rb(rng, 4), 'transforms': [
                {'type': 1, 'id': 12, 'keylen': 256}, {'type': 3, 'id': 12, 'keylen': None}, {'type': 5, 'id': 0, 'keylen': None}]}]},
            {'type': NOTIFY, 'critical': False, 'proto': 0, 'spi': b'', 'ntype': 16391, 'data': b''},
            {'type': IDI, 'critical': False, 'idtype': 3, 'data': b'alice@example.org'},
            {'type': AUTH, 'critical': False, 'method': 2, 'data': rb(rng, 32)}]
    out['ike_auth'] = dict(gen_header(rng, 35), flags=0x08, mid=1, payloads=auth)
    cc = [{'type': NOTIFY, 'critical': False, 'proto': 3, 'spi': rb(rng, 4), 'ntype': 16393, 'data': b''},
          {'type': TSI, 'critical': False, 'selectors': [gen_selector(rng, False)]},
          {'type': TSR, 'critical': False, 'selectors': [gen_selector(rng, False)]},
          {'type': SA, 'critical': False, 'proposals': [{'num': 1, 'proto': 3, 'spi': rb(rng, 4), 'transforms': [
              {'type': 1, 'id': 12, 'keylen': 128}, {'type': 3, 'id': 2, 'keylen': None}, {'type': 4, 'id': 19, 'keylen': None},
              {'type': 5, 'id': 0, 'keylen': None}]}]},
          {'type': KE, 'critical': False, 'group': 19, 'data': rb(rng, 64)},
          {'type': NONCE, 'critical': False, 'data': rb(rng, 20)}]
    out['create_child_sa'] = dict(gen_header(rng, 36), flags=0x08, mid=2, payloads=cc)
    info = [{'type': DELETE, 'critical': False, 'proto': 3, 'spis': [rb(rng, 4), rb(rng, 4), rb(rng, 4)]},
            {'type': NOTIFY, 'critical': False, 'proto': 3, 'spi': rb(rng, 4), 'ntype': 44, 'data': b''},
            {'type': DELETE, 'critical': False, 'proto': 1, 'spis': []}]
    out['informational'] = dict(gen_header(rng, 37), flags=0x20, mid=3, payloads=info)
    return out


# ------------------------------------------------------------------ locator

def locate_chain(data, first, base=0, level='payload'):
    """Walk a WELL-FORMED payload chain; yield (level, field, offset, size, exact value) for every structural field."""
    out, off, ptype = [], 0, first
    while ptype != 0 and off + 4 <= len(data):
        nxt, crit, plen = struct.unpack_from('>BBH', data, off)
        out += [('payload', 'next', base + off, 1, nxt), ('payload', 'critical', base + off + 1, 1, crit),
                ('payload', 'length', base + off + 2, 2, plen)]
        b0 = off + 4
        if ptype == SA:
            po = b0
            while po + 8 <= off + plen:
                last, _r, pl, num, proto, spisz, ntr = struct.unpack_from('>BBHBBBB', data, po)
                out += [('proposal', 'more', base + po, 1, last), ('proposal', 'length', base + po + 2, 2, pl),
                        ('proposal', 'spi_size', base + po + 6, 1, spisz), ('proposal', 'count', base + po + 7, 1, ntr)]
                to = po + 8 + spisz
                while to + 8 <= po + pl:
                    tl_last, _r, tl = struct.unpack_from('>BBH', data, to)
                    out += [('transform', 'more', base + to, 1, tl_last), ('transform', 'length', base + to + 2, 2, tl)]
                    ao = to + 8
                    while ao + 4 <= to + tl:
                        at, av = struct.unpack_from('>HH', data, ao)
                        out += [('attribute', 'type', base + ao, 2, at), ('attribute', 'value', base + ao + 2, 2, av)]
                        ao += 4
                    to += max(tl, 8)
                po += max(pl, 8)
        elif ptype in (TSI, TSR):
            out.append(('ts', 'count', base + b0, 1, data[b0]))
            so = b0 + 4
            while so + 8 <= off + plen:
                tst, ipp, sl = struct.unpack_from('>BBH', data, so)
                out += [('selector', 'type', base + so, 1, tst), ('selector', 'length', base + so + 2, 2, sl)]
                so += max(sl, 8)
        elif ptype == DELETE:
            out += [('delete', 'spi_size', base + b0 + 1, 1, data[b0 + 1]), ('delete', 'count', base + b0 + 2, 2, struct.unpack_from('>H', data, b0 + 2)[0])]
        elif ptype == NOTIFY:
            out.append(('notify', 'spi_size', base + b0 + 1, 1, data[b0 + 1]))
        off += max(plen, 4)
        if ptype == SK:
            break
        ptype = nxt
    return out


NEXT_VALUES = [0, 33, 34, 35, 36, 39, 40, 41, 42, 43, 44, 45, 46, 47, 200, 255]


def grid_variants(data, fields):
    """Structure-aware grid: every located field x its hostile values. Yields (descriptor, bytes)."""
    for (level, field, off, size, exact) in fields:
        if field in ('length', 'value') or (field == 'count' and size == 2):
            vals = [0, 1, 2, 3, 4, 5, max(exact - 1, 0), exact + 1, 0xFFFF, 8, 7]
        elif field in ('next', 'more', 'type') and size == 1:
            vals = NEXT_VALUES + [exact]
        elif field == 'critical':
            vals = [0x80, 0x01, 0xFF]
        else:
            vals = [0, 1, 2, 3, 4, 5, 8, 255, (exact + 1) & 0xFF, (exact - 1) & 0xFF]
        for v in dict.fromkeys(vals):
            if v == exact:
                continue
            b = bytearray(data)
            if size == 1:
                b[off] = v & 0xFF
            else:
                struct.pack_into('>H', b, off, v & 0xFFFF)
            yield (level, field, v), bytes(b)


def pair_variants(data, fields, first_type_off=None):
    """Two cooperating fields: the type byte that names payload i (previous next-payload / header) x length of payload i."""
    pl = [f for f in fields if f[0] == 'payload' and f[1] == 'next']
    for i, f in enumerate(pl):
        type_off = first_type_off if i == 0 else pl[i - 1][2]
        if type_off is None:
            continue
        len_off = f[2] + 2
        for t in (47, 200, 255, 37, 46, 0):
            for ln in (0, 1, 2, 3, 4, 5, 0xFFFF):
                b = bytearray(data)
                b[type_off] = t
                struct.pack_into('>H', b, len_off, ln)
                yield ('payload-pair', t, ln), bytes(b)


def substructure_pairs(data, fields):
    """Two cooperating fields INSIDE a payload: the kind octet of a substructure (selector type, proposal / transform 'more' marker, attribute type) x the length
    (or value) field of the SAME substructure. A parser that treats an unknown kind specially (skips it, falls back) meets the hostile length on that path only."""
    by_off = {}
    for (level, field, off, size, exact) in fields:
        by_off.setdefault(level, []).append((field, off, size, exact))
    for level, kind_field, len_field in (('selector', 'type', 'length'), ('proposal', 'more', 'length'), ('transform', 'more', 'length'), ('attribute', 'type', 'value')):
        items = by_off.get(level, [])
        kinds = [f for f in items if f[0] == kind_field]
        lens = [f for f in items if f[0] == len_field]
        for (kf, ko, ks, kexact), (lf, lo, ls, lexact) in zip(kinds, lens):
            for kv in ([0, 1, 6, 9, 200, 255] if ks == 1 else [0, 14, 0x800E, 0x7FFF, 0xFFFF]):
                for lv in (0, 1, 2, 3, 4, 7, 8, 0xFFFF):
                    b = bytearray(data)
                    if ks == 1:
                        b[ko] = kv
                    else:
                        struct.pack_into('>H', b, ko, kv)
                    struct.pack_into('>H', b, lo, lv)
                    yield (level + '-pair', kv, lv), bytes(b)


def byte_mutations(data, rng, n):
    vals = [0, 1, 2, 3, 4, 5, 0x7F, 0x80, 0xFF]
    for _ in range(n):
        b = bytearray(data)
        for _ in range(rng.randrange(1, 4)):
            if not b:
                break
            b[rng.randrange(len(b))] = rng.choice(vals + [rng.randrange(256)])
        yield bytes(b)


def truncations(data, step=1):
    for i in range(0, len(data), step):
        yield data[:i]


def declared_delete_spis(data, first, depth=0):
    """Sum of the SPI counts DECLARED in DELETE payload headers along the chain (the library iterates them)."""
    total, off, ptype, guard = 0, 0, first, 0
    while ptype != 0 and off + 4 <= len(data) and guard < 5000:
        guard += 1
        nxt, _c, plen = struct.unpack_from('>BBH', data, off)
        if ptype == DELETE and off + 8 <= len(data):
            total += struct.unpack_from('>H', data, off + 6)[0]
        if plen < 4:
            break
        off += plen
        if ptype == SK:
            break
        ptype = nxt
    return total


# ------------------------------------------------------------------ forgeries that collide with a given datagram under NON-cryptographic digests
_CRC_T = []
for _i in range(256):
    _c = _i
    for _ in range(8):
        _c = (_c >> 1) ^ 0xEDB88320 if _c & 1 else _c >> 1
    _CRC_T.append(_c)
_CRC_REV = {t >> 24: i for i, t in enumerate(_CRC_T)}


def crc32_patch(prefix, target):
    """Four octets X such that zlib.crc32(prefix + X) == target (a CRC is linear: any prefix can be completed to any value)."""
    import zlib
    want = target ^ 0xFFFFFFFF
    idx = []
    w = want
    for _ in range(4):
        i = _CRC_REV[w >> 24]
        idx.append(i)
        w = ((w ^ _CRC_T[i]) << 8) & 0xFFFFFFFF
    state = zlib.crc32(prefix) ^ 0xFFFFFFFF
    out = bytearray()
    for i in reversed(idx):
        out.append((state ^ i) & 0xFF)
        state = (state >> 8) ^ _CRC_T[i]
    x = bytes(out)
    assert zlib.crc32(prefix + x) == target
    return x


def digest_collisions(base, forged_prefix):
    """(name, datagram) pairs: datagrams that start with `forged_prefix` (the forger's content) and agree with `base` (an authentic datagram the
    forger saw) under a fingerprint an implementation might use to recognise "the same datagram again" instead of verifying it."""
    import zlib
    out = [('crc32', forged_prefix + crc32_patch(forged_prefix, zlib.crc32(base)))]
    # same sum of octets (mod 2^32) and same length class
    diff = (sum(base) - sum(forged_prefix)) % 2 ** 32
    pad = bytearray()
    while diff > 0 and len(pad) < 4096:
        pad.append(min(255, diff))
        diff -= pad[-1]
    if diff == 0:
        out.append(('octet-sum', forged_prefix + bytes(pad)))
    # same XOR of all octets
    x = 0
    for b in base:
        x ^= b
    y = 0
    for b in forged_prefix:
        y ^= b
    out.append(('octet-xor', forged_prefix + bytes([x ^ y])))
    # same length and same last 32 octets (a fingerprint made of the checksum field alone)
    if len(base) >= len(forged_prefix) + 32:
        out.append(('same-length-and-tail', forged_prefix + bytes(len(base) - len(forged_prefix) - 32) + base[-32:]))
    # same first 48 octets except the Message ID / flags the forger wants, same length
    return out
