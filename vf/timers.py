"""C13 monitors under the virtual clock: retransmission discipline, DPD, lifetime."""
from vf import observe
from vf.ref import codec, ikecrypto
from vf.sim import State

import ikesa as r_ikesa

MAXR = r_ikesa.IkeSa.MAX_RETRANSMISSIONS


def _hdr(d):
    try:
        return codec.decode_header(d)
    except codec.DecodeError:
        return None


class TimerMonitor:
    """Fed with every real main_loop iteration. sim.tick_dt (if set) is the constant tick period of the run."""

    def __init__(self, ck, judge_dpd=True):
        self.ck, self.judge_dpd = ck, judge_dpd
        self.reset()

    def reset(self):
        self.objs = {}
        self.req = {}          # (oid, mid) -> dict(bytes, times[], deadlines[], answered)
        self.first_seen = {}   # oid -> vtime
        self.last_accept = {}  # oid -> vtime of the last authentic datagram processed by that IKE_SA
        self.established_at = {}
        self.reached = set()   # (spi_i, spi_r, mid) of requests that were delivered to an endpoint while it held the IKE_SA they belong to

    def on_step(self, sim, ep, rec):
        ck = self.ck
        case = getattr(sim, 'case', None)
        t = rec.vtime
        dt = getattr(sim, 'tick_dt', None)
        table = list(ep.ctl.ike_sas) + [x.new_ike_sa for x in ep.ctl.ike_sas if x.new_ike_sa is not None]
        for sa in table:
            if id(sa) not in self.objs:
                self.objs[id(sa)] = sa
                self.first_seen[id(sa)] = t
                self.last_accept[id(sa)] = t
        before = {s['oid']: s for s in rec.before}
        after = {s['oid']: s for s in rec.after}
        ck.count('tm.steps')
        if rec.kind == 'udp' and rec.input is not None:
            h0 = _hdr(rec.input[2])
            if h0 is not None and not h0['flags'] & 0x20:
                want0 = h0['spi_r'] if h0['flags'] & 0x08 else h0['spi_i']
                if any(b_['my_spi'] == want0 for b_ in rec.before):
                    self.reached.add((h0['spi_i'], h0['spi_r'], h0['mid']))
        # ---- authentic datagram accepted: liveness evidence, and responses end retransmission
        if rec.kind == 'udp' and rec.input is not None and rec.routed:
            oid = rec.routed[0][0]
            sa = self.objs.get(oid)
            h = _hdr(rec.input[2])
            if sa is not None and h is not None:
                keys = observe.crypto_keys(sa.peer_crypto)
                auth = (h['exch'] == 34 and (oid not in before or not before[oid]['has_keys'])) or \
                    (keys is not None and ikecrypto.sk_verify(rec.input[2], keys[0], keys[1]))
                if auth:
                    self.last_accept[oid] = t
                    if h['flags'] & 0x20 and any(x[0] == oid and x[1].endswith('response') for x in rec.handlers):
                        r = self.req.get((oid, h['mid']))
                        # a late copy of an INVALID_KE_PAYLOAD / COOKIE answer is looked at and ignored: it does not answer the repeated IKE_SA_INIT request
                        stale_init = h['exch'] == 34 and oid in after and after[oid]['state'] == 'INIT_REQ_SENT' and r is not None and \
                            all(bytes(x[2]) == r['bytes'] for x in rec.sent)     # (the timer sweep of the same iteration may retransmit the request as it is)
                        if r is not None and not stale_init:
                            r['answered'] = t
        # ---- emissions
        for (src, dst, data) in rec.sent:
            h = _hdr(data)
            if h is None or h['flags'] & 0x20:
                continue
            my_spi = h['spi_i'] if h['flags'] & 0x08 else h['spi_r']
            sa = next((x for x in self.objs.values() if bytes(x.my_spi) == my_spi and str(x.my_addr) == src), None)
            if sa is None:
                continue
            oid = id(sa)
            key = (oid, h['mid'])
            b, a = before.get(oid), after.get(oid)
            r = self.req.get(key)
            exn = observe.EXCH.get(h['exch'], str(h['exch']))
            if r is None or (h['exch'] == 34 and bytes(data) != r['bytes'] and any(x[1].endswith('response') for x in rec.handlers)):
                # first transmission (or the IKE_SA_INIT retry after COOKIE / INVALID_KE_PAYLOAD, which starts a new request)
                self.req[key] = {'bytes': bytes(data), 'times': [t], 'deadlines': [a['retransmit_at'] if a else None], 'answered': None, 'exch': exn,
                                 'after_retry': r is not None}
                ck.count(f'tm.request_first.{exn}')
                continue
            # a further transmission of an outstanding request
            ck.count(f'tm.retransmission.{exn}')
            ck.seen('tm.retransmitted_kinds', (exn, b['state'] if b else None))
            if bytes(data) != r['bytes']:
                ck.violation(f'retransmission-differs-from-the-original-request:{exn}:{b["state"] if b else "?"}', {'mid': h['mid'], 'first': r['bytes'][:48], 'now': bytes(data)[:48],
                                                                                                                  'trace': sim.trace[-8:]}, case)
            if r['answered'] is not None:
                ck.violation(f'request-retransmitted-after-its-response-was-accepted:{exn}', {'mid': h['mid'], 'answered_at': r['answered'], 'now': t}, case)
            r['times'].append(t)
            if len(r['times']) > MAXR + 1:
                ck.violation(f'more-transmissions-than-the-retransmission-budget:{exn}', {'transmissions': len(r['times']), 'budget': MAXR}, case)
            dl = r['deadlines'][-1]
            if dl is not None:
                if t <= dl - 1e-9:
                    ck.violation(f'retransmission-before-its-deadline:{exn}', {'deadline': dl, 'now': t}, case)
                if dt is not None and dt <= 1.0 and t - dl > dt + 1e-6 and rec.kind == 'tick':
                    ck.violation(f'retransmission-later-than-one-tick-after-its-deadline:{exn}', {'deadline': dl, 'now': t, 'tick': dt}, case)
            nd = a['retransmit_at'] if a else None
            if nd is not None and dl is not None and len(r['deadlines']) >= 2:
                prev_gap = r['deadlines'][-1] - r['deadlines'][-2]
                gap = nd - dl
                if gap < prev_gap - 1e-6:
                    ck.violation(f'retransmission-intervals-decrease:{exn}', {'gaps': [prev_gap, gap]}, case)
            if dt is not None and len(r['times']) >= 3:
                g1, g2 = r['times'][-2] - r['times'][-3], r['times'][-1] - r['times'][-2]
                if g2 < g1 - 1e-6:
                    ck.violation(f'emission-gaps-decrease-under-a-constant-tick:{exn}', {'gaps': [g1, g2], 'tick': dt}, case)
            r['deadlines'].append(nd)
        # ---- an IKE_SA that gave up: it must have used its budget, not less (and not silently earlier)
        for oid, b in before.items():
            a = after.get(oid)
            if b['state'].endswith('_REQ_SENT') and a is None and not rec.handlers:
                r = self.req.get((oid, b['my_msg_id']))
                if r is not None and rec.kind == 'tick':
                    ck.count('tm.gave_up')
                    ck.seen('tm.gave_up_states', b['state'])
                    if len(r['times']) < MAXR:
                        ck.violation(f'gave-up-before-using-the-retransmission-budget:{b["state"]}', {'transmissions': len(r['times'])}, case)
                    if getattr(sim, 'lossless_run', False) and not sim.net:
                        # nothing was lost in this run and nothing is still in flight (every copy of the request reached the peer): a request can only
                        # stay unanswered for ever if the peer no longer has the IKE_SA
                        sa = self.objs.get(oid)
                        pair = (bytes(sa.spi_i), bytes(sa.spi_r)) if sa is not None else None
                        holders = [(e.name, x.state.name) for e in sim.eps.values() if e is not ep for x in e.ctl.ike_sas
                                   if (bytes(x.spi_i), bytes(x.spi_r)) == pair and x.state.name not in ('DELETED', 'REKEYED', 'DEL_AFTER_REKEY_IKE_SA_REQ_SENT', 'DEL_IKE_SA_REQ_SENT')]
                        ck.count('tm.gave_up_in_a_lossless_run')
                        # ... and at least one copy of the request arrived while the peer held that IKE_SA (copies that came before the peer had created
                        # it, e.g. ahead of a delayed rekey response, are legitimately ignored)
                        if holders and pair is not None and (pair[0], pair[1], b['my_msg_id']) in self.reached:
                            ck.violation(f'request-never-answered-although-nothing-was-lost-and-the-peer-still-holds-the-ike-sa:{b["state"]}',
                                         {'peer': holders, 'transmissions': len(r['times']), 'trace': sim.trace[-10:]}, case)
        # ---- DPD
        if not self.judge_dpd:
            return
        for oid, a in after.items():
            b = before.get(oid)
            sa = self.objs.get(oid)
            if sa is None or b is None:
                continue
            dpd = sa.configuration.dpd
            idle = t - self.last_accept.get(oid, t)
            if b['state'] == 'ESTABLISHED' and a['state'] == 'DPD_REQ_SENT':
                ck.count('tm.dpd_started')
                if idle < dpd - 1e-6 and not getattr(sim, 'forced_dpd', False):
                    ck.violation('dpd-probe-earlier-than-the-dpd-interval-after-the-last-authentic-message', {'idle': idle, 'dpd': dpd, 'trace': sim.trace[-6:]}, case)
            # (judged in every loop turn, whatever woke it: on a network that is never quiet the turns are not 'tick' turns, and the timers run in all of them)
            if b['state'] == 'ESTABLISHED' and a['state'] == 'ESTABLISHED' and dt is not None:
                if idle > dpd + 2 * dt + 1e-6:
                    ck.violation('idle-ike-sa-did-not-probe-its-peer-within-one-tick-of-the-dpd-interval', {'idle': idle, 'dpd': dpd, 'tick': dt, 'trace': sim.trace[-6:]}, case)
                else:
                    ck.count('tm.dpd_idle_checks')


def opened(sa_keys_obj, data):
    """Describe a datagram with the keys of a repository Crypto object (for the harness, not for verdicts)."""
    return observe.describe(data, observe.crypto_keys(sa_keys_obj))
