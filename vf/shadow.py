"""Wire shadow: an independent RFC 7296 observer of everything put on the simulated wire.

It imports nothing from the repository.  From the IKE_SA_INIT datagrams in clear, the tapped Diffie-Hellman
*private* values (the shared secret itself is recomputed with vf.ref.groups) and its own key schedule it derives
the keys of every IKE_SA, opens every protected datagram with them, follows IKE_AUTH / CREATE_CHILD_SA exchanges
and derives what every IPsec SA that results from a completed negotiation must look like in the kernel
(SPI, destination, protocol, algorithms, keys per direction).  C01 / C04 / C20 / C07(4) / C08(f) consume it."""
import ipaddress

from vf.ref import codec, groups, ikecrypto

ENCR_NAMES = {12: 'cbc(aes)'}
INTEG_NAMES = {1: 'hmac(md5)', 2: 'hmac(sha1)', 12: 'hmac(sha256)', 14: 'hmac(sha512)'}


def _first(pls, t):
    return next((p for p in pls if p['type'] == t and not p.get('malformed')), None)


def _transforms(prop):
    return [(t['type'], t['id'], t['keylen']) for t in prop['transforms']]


class IkeRec:
    """One IKE_SA as the shadow knows it."""

    def __init__(self, spi_i, spi_r, initiator_addr, responder_addr, kind):
        self.spi_i, self.spi_r = spi_i, spi_r
        self.initiator_addr, self.responder_addr = initiator_addr, responder_addr
        self.kind = kind                 # 'initial' | 'rekey'
        self.candidates = []             # list of dict(keys, suite, ni, nr, req_raw, res_raw, shared)
        self.resolved = None
        self.parent = None

    def keys_for(self, from_initiator):
        c = self.resolved
        if c is None:
            return None
        k = c['keys']
        return (c['suite']['integ'], k['sk_ai'], k['sk_ei']) if from_initiator else (c['suite']['integ'], k['sk_ar'], k['sk_er'])


class Shadow:
    def __init__(self, dh_log, ck=None, check_dh=True):
        self.dh_log = dh_log             # list of tap records (group, priv, pub, peer, secret)
        self.ck = ck
        self.check_dh = check_dh
        self.pos = 0
        self.init_reqs = {}              # spi_i -> [decoded IKE_SA_INIT request records]
        self.ikes = {}                   # (spi_i, spi_r) -> IkeRec
        self.exch = {}                   # (spi_i, spi_r, from_initiator, mid) -> request record
        self.expected = {}               # (daddr, ipproto, spi) -> expected kernel SA
        self.secrets = {}                # bytes -> label
        self.events = []                 # what the shadow concluded, for evidence / witnesses
        self.problems = []               # (key, detail): things the shadow itself finds wrong on the wire
        self.clear_violations = []       # C07(4): protected exchanges carrying anything but SK in the clear
        self.counts = {}
        self.dh_checked = set()

    def _cnt(self, k, n=1):
        self.counts[k] = self.counts.get(k, 0) + n
        if self.ck is not None:
            self.ck.count('shadow.' + k, n)

    def _secret(self, b, label):
        if b and len(b) >= 8:
            self.secrets.setdefault(bytes(b), label)

    # ------------------------------------------------------------------ DH
    def _dh_for_pub(self, group, pub):
        for rec in reversed(self.dh_log):
            if rec['group'] == group and rec['pub'] == pub:
                return rec
        return None

    def _shared(self, group, ke_i, ke_r):
        """Shared secret recomputed by the reference from the initiator's tapped private value."""
        rec = self._dh_for_pub(group, ke_i)
        if rec is None:
            self._cnt('dh.no_private_value')
            return None
        try:
            if self.check_dh and id(rec) not in self.dh_checked:
                self.dh_checked.add(id(rec))
                ref_pub = groups.dh_public(group, rec['priv'])
                self._cnt(f'dh.public_checked.g{group}')
                if ref_pub != rec['pub']:
                    self.problems.append((f'dh-public-value-differs:g{group}', {'ref': ref_pub, 'repo': rec['pub']}))
            s = groups.dh_shared(group, rec['priv'], ke_r)
        except Exception as ex:      # invalid peer value (not on curve, ...)
            self._cnt('dh.reference_refused_peer_value')
            return None
        self._cnt(f'dh.shared_computed.g{group}')
        # compare with what the repository computed on either side
        for side, mine, peer in (('initiator', ke_i, ke_r), ('responder', ke_r, ke_i)):
            r = self._dh_for_pub(group, mine)
            if r is not None and r['peer'] == peer and r['secret'] is not None:
                self._cnt(f'dh.secret_compared.{side}')
                if s[:1] == b'\0':
                    self._cnt('dh.secret_with_leading_zero')
                if r['secret'] != s:
                    self.problems.append((f'dh-shared-secret-differs:g{group}:{side}', {'ref': s, 'repo': r['secret']}))
        self._secret(s, 'dh-shared-secret')
        return s

    # ------------------------------------------------------------------ feed
    def feed(self, wire):
        while self.pos < len(wire):
            n, src, dst, data = wire[self.pos]
            self.pos += 1
            try:
                self._one(n, src, dst, bytes(data))
            except codec.DecodeError:
                self._cnt('undecodable')

    def _one(self, n, src, dst, data):
        h = codec.decode_header(data)
        resp = bool(h['flags'] & codec.FLAG_R)
        if h['exch'] == codec.IKE_SA_INIT:
            m = codec.decode(data, strict_bodies=False)
            pls = m['payloads']
            if not resp:
                sa, ke, no = _first(pls, codec.SA), _first(pls, codec.KE), _first(pls, codec.NONCE)
                if sa and ke and no:
                    lst = self.init_reqs.setdefault(h['spi_i'], [])
                    if not any(r['raw'] == data for r in lst):
                        lst.append({'raw': data, 'sa': sa, 'ke': ke, 'nonce': no['data'], 'src': src, 'dst': dst})
                        self._cnt('init.requests')
                return
            sa, ke, no = _first(pls, codec.SA), _first(pls, codec.KE), _first(pls, codec.NONCE)
            if not (sa and ke and no and sa.get('proposals')):
                self._cnt('init.notify_only_responses')
                return
            key = (h['spi_i'], h['spi_r'])
            rec = self.ikes.get(key)
            if rec is None:
                rec = self.ikes[key] = IkeRec(h['spi_i'], h['spi_r'], dst, src, 'initial')
            if any(c['res_raw'] == data for c in rec.candidates):
                return
            suite = ikecrypto.suite_of(_transforms(sa['proposals'][0]))
            for req in reversed(self.init_reqs.get(h['spi_i'], [])):
                if req['ke']['group'] != ke['group'] or not {'encr', 'integ', 'prf', 'dh'} <= set(suite):
                    continue
                shared = self._shared(ke['group'], req['ke']['data'], ke['data'])
                if shared is None:
                    continue
                keys = ikecrypto.ike_keys(suite, req['nonce'], no['data'], h['spi_i'], h['spi_r'], shared)
                rec.candidates.append({'keys': keys, 'suite': suite, 'ni': req['nonce'], 'nr': no['data'], 'req_raw': req['raw'],
                                       'res_raw': data, 'shared': shared, 'chosen': _transforms(sa['proposals'][0]),
                                       'offer': [_transforms(p) for p in req['sa'].get('proposals', [])]})
            self._cnt('init.responses')
            return
        # ---- protected exchanges
        key = (h['spi_i'], h['spi_r'])
        rec = self.ikes.get(key)
        if rec is None:
            self._cnt('protected.unknown_ike_sa')
            return
        from_init = bool(h['flags'] & codec.FLAG_I)
        opened = None
        cands = [rec.resolved] if rec.resolved else rec.candidates
        for c in cands:
            k = c['keys']
            ks = (c['suite']['integ'], k['sk_ai'], k['sk_ei']) if from_init else (c['suite']['integ'], k['sk_ar'], k['sk_er'])
            if not ikecrypto.sk_verify(data, ks[0], ks[1]):
                continue
            try:
                opened = ikecrypto.sk_open(data, *ks)
            except Exception as ex:
                # the ICV is the truncated HMAC under the derived SK_a, so a key holder sent this, yet what is under the IV and SK_e is no payload chain
                self._cnt('protected.authentic_but_undecodable')
                self.problems.append(('sk-authentic-datagram-does-not-decrypt-to-a-payload-chain', {'n': n, 'error': repr(ex)[:120], 'data': data[:96]}))
                if rec.resolved is None:
                    rec.resolved = c
                    self._resolved(rec)
                return
            if rec.resolved is None:
                rec.resolved = c
                self._resolved(rec)
            break
        if opened is None:
            self._cnt('protected.not_opened')
            return
        m, inner, info = opened
        self._cnt('protected.opened')
        if info['clear_payload_types'] != [codec.SK] or h['next'] != codec.SK:
            self.clear_violations.append({'n': n, 'clear_types': info['clear_payload_types'], 'exch': h['exch']})
        # C07(2): layout facts the reference saw while opening
        if info['padlen'] != len(info['pad']):
            self.problems.append(('sk-pad-length-octet-wrong', {'n': n}))
        ek = (key, from_init, h['mid'])
        if not resp:
            if ek not in self.exch:
                self.exch[ek] = {'inner': inner, 'src': src, 'dst': dst, 'exch': h['exch'], 'raw': data}
            return
        # a response: pair it with the request of the opposite direction and same Message ID
        req = self.exch.get((key, not from_init, h['mid']))
        if req is None:
            self._cnt('protected.response_without_request')
            return
        if req.get('answered') == data:
            return
        req['answered'] = data
        req['resp_inner'] = inner
        if h['exch'] == codec.IKE_AUTH:
            self._child(rec, req, inner, src, dst, ike_auth=True)
        elif h['exch'] == codec.CREATE_CHILD_SA:
            rsa = _first(inner, codec.SA)
            if rsa and rsa.get('proposals') and rsa['proposals'][0]['proto'] == 1:
                self._ike_rekey(rec, req, inner, src, dst)
            else:
                self._child(rec, req, inner, src, dst, ike_auth=False)

    def _resolved(self, rec):
        c = rec.resolved
        for name, v in c['keys'].items():
            self._secret(v, f'ike:{name}')
        self.events.append(('ike-keys', rec.kind, rec.spi_i.hex(), rec.spi_r.hex(), tuple(sorted(c['suite'].items()))))
        self._cnt(f'ike.resolved.{rec.kind}')

    # ------------------------------------------------------------------ IKE rekey
    def _ike_rekey(self, rec, req, resp_inner, src, dst):
        qsa, qke, qno = _first(req['inner'], codec.SA), _first(req['inner'], codec.KE), _first(req['inner'], codec.NONCE)
        rsa, rke, rno = _first(resp_inner, codec.SA), _first(resp_inner, codec.KE), _first(resp_inner, codec.NONCE)
        if not (qsa and qke and qno and rsa and rke and rno and qsa.get('proposals')):
            self._cnt('rekey.incomplete')
            return
        suite = ikecrypto.suite_of(_transforms(rsa['proposals'][0]))
        if qke['group'] != rke['group'] or not {'encr', 'integ', 'prf', 'dh'} <= set(suite):
            self._cnt('rekey.incomplete')
            return
        nspi_i, nspi_r = qsa['proposals'][0]['spi'], rsa['proposals'][0]['spi']
        shared = self._shared(rke['group'], qke['data'], rke['data'])
        if shared is None:
            return
        old = rec.resolved
        keys = ikecrypto.ike_keys(suite, qno['data'], rno['data'], nspi_i, nspi_r, shared, old_sk_d=old['keys']['sk_d'],
                                  old_prf=old["suite"]["prf"])
        new = IkeRec(nspi_i, nspi_r, req['src'], req['dst'], 'rekey')
        new.parent = rec
        new.resolved = {'keys': keys, 'suite': suite, 'ni': qno['data'], 'nr': rno['data'], 'req_raw': None, 'res_raw': None,
                        'shared': shared, 'chosen': _transforms(rsa['proposals'][0]),
                        'offer': [_transforms(p) for p in qsa['proposals']]}
        new.candidates = [new.resolved]
        if (nspi_i, nspi_r) not in self.ikes:
            self.ikes[(nspi_i, nspi_r)] = new
            self._resolved(new)

    # ------------------------------------------------------------------ CHILD_SA
    def _child(self, rec, req, resp_inner, src, dst, ike_auth):
        c = rec.resolved
        qsa, rsa = _first(req['inner'], codec.SA), _first(resp_inner, codec.SA)
        if not (qsa and rsa and rsa.get('proposals') and qsa.get('proposals')):
            self._cnt('child.no_sa_in_response')
            return
        prop = rsa['proposals'][0]
        suite = ikecrypto.suite_of(_transforms(prop))
        if 'integ' not in suite or (prop['proto'] == 3 and 'encr' not in suite):
            self._cnt('child.incomplete_suite')
            return
        if ike_auth:
            ni, nr, dh = c['ni'], c['nr'], None
        else:
            qno, rno = _first(req['inner'], codec.NONCE), _first(resp_inner, codec.NONCE)
            if not (qno and rno):
                self._cnt('child.no_nonce')
                return
            ni, nr, dh = qno['data'], rno['data'], None
            rke, qke = _first(resp_inner, codec.KE), _first(req['inner'], codec.KE)
            if 'dh' in suite and suite['dh'] != 0:
                if not (rke and qke and rke['group'] == qke['group']):
                    self._cnt('child.ke_missing')
                    return
                dh = self._shared(rke['group'], qke['data'], rke['data'])
                if dh is None:
                    return
        ekl = suite.get('encr_key', 0) if prop['proto'] == 3 else 0
        keys = ikecrypto.child_keys(c['suite']['prf'], c['keys']['sk_d'], ni, nr, ekl, suite['integ'], dh)
        for nme, v in keys.items():
            self._secret(v, f'child:{nme}')
        ipproto = 50 if prop['proto'] == 3 else 51
        x_init, x_resp = req['src'], req['dst']          # exchange initiator / responder addresses
        mode_transport = any(p['type'] == codec.NOTIFY and p.get('ntype') == 16391 for p in resp_inner)
        tsi, tsr = _first(resp_inner, codec.TSI), _first(resp_inner, codec.TSR)
        common = {'enc_alg': ENCR_NAMES.get(suite.get('encr')) if prop['proto'] == 3 else None, 'auth_alg': INTEG_NAMES.get(suite['integ']),
                  'mode': 0 if mode_transport else 1, 'ike': (rec.spi_i, rec.spi_r), 'pfs': dh is not None,
                  'kind': 'ike_auth' if ike_auth else ('rekey_child' if any(p['type'] == codec.NOTIFY and p.get('ntype') == 16393 for p in req['inner']) else 'new_child'),
                  'tsi': tsi['selectors'][0] if tsi and tsi.get('selectors') else None,
                  'tsr': tsr['selectors'][0] if tsr and tsr.get('selectors') else None}
        spi_resp_in, spi_init_in = prop['spi'], qsa['proposals'][0]['spi']
        self.expected[(x_resp, ipproto, spi_resp_in)] = dict(common, dir='i2r', saddr=x_init, daddr=x_resp, enc_key=keys['sk_ei'], auth_key=keys['sk_ai'])
        self.expected[(x_init, ipproto, spi_init_in)] = dict(common, dir='r2i', saddr=x_resp, daddr=x_init, enc_key=keys['sk_er'], auth_key=keys['sk_ar'])
        self.events.append(('child-keys', common['kind'], ipproto, 'pfs' if dh else 'nopfs', spi_resp_in.hex(), spi_init_in.hex()))
        self._cnt(f"child.derived.{common['kind']}.{'pfs' if dh else 'nopfs'}.{'esp' if ipproto == 50 else 'ah'}")


# ---------------------------------------------------------------------------------------------------------
# selector helpers: what kernel selector a negotiated traffic selector means (only where it is unambiguous)

def canonical_kernel_selector(ts):
    """(addr, prefixlen, port, mask, proto) for an exact-CIDR range with a single port or the full port range; else None."""
    a, b = int.from_bytes(ts['saddr'], 'big'), int.from_bytes(ts['eaddr'], 'big')
    bits = 8 * len(ts['saddr'])
    size = b - a + 1
    if size <= 0 or size & (size - 1) or a % size:
        return None
    plen = bits - (size.bit_length() - 1)
    if (ts['sport'], ts['eport']) == (0, 65535):
        port, mask = 0, 0
    elif ts['sport'] == ts['eport']:
        port, mask = ts['sport'], 0xFFFF
    else:
        return None
    addr = str(ipaddress.ip_address(ts['saddr']))
    return addr, plen, port, mask, ts['ipproto']


class KeyMonitor:
    """C01 / C04 online monitor: every NEWSA an endpoint emits must be the one the shadow derived for that
    (destination, protocol, SPI); every IKE keyring must equal the shadow's."""

    def __init__(self, ck, prefix=''):
        self.ck, self.prefix = ck, prefix
        self.reset()

    def reset(self):
        self.shadow = None
        self.ring_checked = set()
        self.keep = []

    def attach(self, sim, dh_log):
        self.shadow = Shadow(dh_log, self.ck)
        sim.monitors.append(self.on_step)
        return self.shadow

    def on_step(self, sim, ep, rec):
        ck, sh = self.ck, self.shadow
        case = getattr(sim, 'case', None)
        sh.feed(sim.wire)
        while sh.problems:
            k, d = sh.problems.pop(0)
            ck.violation(self.prefix + k, d, case)
        for r in rec.nl:
            if not r['msg'] or r['msg']['name'] != 'NEWSA':
                continue
            sa, attrs = r['msg']['sa'], r['msg']['attrs']
            key = (sa['id']['daddr'], sa['id']['proto'], sa['id']['spi'])
            exp = sh.expected.get(key)
            ck.count('keymon.newsa_seen')
            if exp is None:
                ck.violation(f'{self.prefix}newsa-for-no-completed-negotiation', {'sa': sa, 'trace': sim.trace[-8:]}, case)
                continue
            got_auth = attrs.get(1)
            got_enc = attrs.get(2)
            bad = []
            if sa['saddr'] != exp['saddr']:
                bad.append('saddr')
            if sa['mode'] != exp['mode']:
                bad.append('mode')
            if got_auth is None or got_auth['name'] != exp['auth_alg']:
                bad.append('auth-alg')
            elif got_auth['key'] != exp['auth_key'] or got_auth['key_bits'] != 8 * len(exp['auth_key']):
                bad.append('auth-key')
            if exp['enc_alg'] is None:
                if got_enc is not None:
                    bad.append('enc-present-for-ah')
            elif got_enc is None or got_enc['name'] != exp['enc_alg']:
                bad.append('enc-alg')
            elif got_enc['key'] != exp['enc_key'] or got_enc['key_bits'] != 8 * len(exp['enc_key']):
                bad.append('enc-key')
            # selectors where the negotiated TS has one meaning only
            src_ts, dst_ts = (exp['tsi'], exp['tsr']) if exp['dir'] == 'i2r' else (exp['tsr'], exp['tsi'])
            for side, ts in (('s', src_ts), ('d', dst_ts)):
                can = canonical_kernel_selector(ts) if ts else None
                if can is None:
                    ck.count('keymon.selector_not_canonical')
                    continue
                sel = sa['sel']
                got = (sel['saddr' if side == 's' else 'daddr'], sel['prefixlen_' + side], sel[side + 'port'], sel[side + 'port_mask'], sel['proto'])
                ck.count('keymon.selector_compared')
                if got != can:
                    bad.append(f'selector-{side}')
            who = 'exchange-initiator' if ((exp['dir'] == 'i2r') == (sa['saddr'] == str(ep.addrs[0]) or sa['saddr'] in map(str, ep.addrs))) else 'exchange-responder'
            ck.count(f"keymon.newsa_checked.{exp['kind']}.{exp['dir']}.{who}")
            ck.seen('keymon.kinds', (exp['kind'], exp['pfs'], sa['id']['proto'], sa['mode'], sa['family'], exp['auth_alg'], len(exp['enc_key'] or b'')))
            if bad:
                ck.violation(f"{self.prefix}kernel-sa-differs-from-rfc-derivation:{'+'.join(bad)}:{exp['kind']}:{exp['dir']}:installed-by-{who}",
                             {'fields': bad, 'expected': {k: v for k, v in exp.items() if k != 'ike'}, 'installed': {'sa': sa, 'auth': got_auth, 'enc': got_enc},
                              'trace': sim.trace[-8:]}, case)
        # IKE keyrings
        for sa in list(ep.ctl.ike_sas) + [x.new_ike_sa for x in ep.ctl.ike_sas if x.new_ike_sa is not None]:
            ring = sa.ike_sa_keyring
            if ring is None or id(sa) in self.ring_checked:
                continue
            rec_ = sh.ikes.get((bytes(sa.spi_i), bytes(sa.spi_r)))
            if rec_ is None or rec_.resolved is None:
                continue
            self.ring_checked.add(id(sa))
            self.keep.append(sa)
            ck.count(f'keymon.keyring_checked.{rec_.kind}')
            k = rec_.resolved['keys']
            diff = [n for n in ('sk_d', 'sk_ai', 'sk_ar', 'sk_ei', 'sk_er', 'sk_pi', 'sk_pr') if bytes(getattr(ring, n)) != k[n]]
            s = rec_.resolved['suite']
            ck.seen('keymon.ike_suites', (s['encr_key'], s['integ'], s['prf'], s['dh'], rec_.kind))
            if diff:
                ck.violation(f"{self.prefix}ike-keyring-differs-from-rfc-derivation:{'+'.join(diff)}:{rec_.kind}:{'initiator' if sa.is_initiator else 'responder'}",
                             {'differs': diff, 'suite': s, 'trace': sim.trace[-8:]}, case)
            # per-direction use of the keys
            mine, peer = sa.my_crypto, sa.peer_crypto
            if mine is not None and peer is not None and not diff:
                exp_my = (k['sk_ei'], k['sk_ai'], k['sk_pi']) if sa.is_initiator else (k['sk_er'], k['sk_ar'], k['sk_pr'])
                exp_peer = (k['sk_er'], k['sk_ar'], k['sk_pr']) if sa.is_initiator else (k['sk_ei'], k['sk_ai'], k['sk_pi'])
                if (bytes(mine.sk_e), bytes(mine.sk_a), bytes(mine.sk_p)) != exp_my or (bytes(peer.sk_e), bytes(peer.sk_a), bytes(peer.sk_p)) != exp_peer:
                    ck.violation(f"{self.prefix}ike-keys-used-in-wrong-direction:{rec_.kind}", {'trace': sim.trace[-8:]}, case)


def mirror_check(ck, sim, a, b, prefix='', require_equal_sets=True):
    """C01 pairing oracle: what A installed towards B is, field by field, what B installed from A (and vice versa).
    Lifetimes are excluded (each side adds its own jitter)."""
    case = getattr(sim, 'case', None)
    ka, kb = a.kernel.sad, b.kernel.sad
    ck.count('mirror.checks')
    if require_equal_sets and set(ka) != set(kb):
        ck.violation(f'{prefix}mirror:sad-key-sets-differ', {'only_A': sorted(map(repr, set(ka) - set(kb))), 'only_B': sorted(map(repr, set(kb) - set(ka))),
                                                             'trace': sim.trace[-10:]}, case)
    ok = True
    for key in set(ka) & set(kb):
        ra, rb = ka[key], kb[key]
        sa_a = {k: v for k, v in ra['sa'].items() if k != 'lft'}
        sa_b = {k: v for k, v in rb['sa'].items() if k != 'lft'}
        ck.count('mirror.sa_pairs_compared')
        if sa_a != sa_b or ra['attrs'] != rb['attrs']:
            ok = False
            fields = sorted(k for k in sa_a if sa_a[k] != sa_b.get(k)) + (['algorithms/keys'] if ra['attrs'] != rb['attrs'] else [])
            ck.violation(f"{prefix}mirror:sa-fields-differ:{'+'.join(fields)}", {'A': ra, 'B': rb, 'trace': sim.trace[-10:]}, case)
        # each side must hold the SA in the right role: destination is one endpoint, source the other
        addrs = {str(a.addrs[0]), str(b.addrs[0])}
        if {ra['sa']['saddr'], ra['sa']['id']['daddr']} != addrs:
            ok = False
            ck.violation(f'{prefix}mirror:tunnel-addresses-not-the-two-peers', {'A': ra['sa'], 'trace': sim.trace[-10:]}, case)
    return ok
