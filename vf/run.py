"""CLI: python -m vf.run <Cxx> [--tier quick|thorough] [--seed N] [--replay file]"""
import argparse
import faulthandler
import json
import logging
import os
import pickle
import sys

from vf import core

sys.path.insert(0, core.REPO)
sys.dont_write_bytecode = True


def main():
    ap = argparse.ArgumentParser()
    ap.add_argument('pid')
    ap.add_argument('--tier', default=os.environ.get('VERIF_TIER', 'quick'))
    ap.add_argument('--seed', type=int, default=int(os.environ.get('VERIF_SEED', '0') or 0))
    ap.add_argument('--shard')
    ap.add_argument('--out')
    ap.add_argument('--replay')
    ap.add_argument('--shards', type=int)
    a = ap.parse_args()
    pid = a.pid.upper()
    if a.tier not in ('quick', 'thorough'):
        a.tier = 'quick'
    # the repository logs eagerly and verbosely; checks that need records install their own handler
    logging.indent = 2
    logging.getLogger().setLevel(logging.CRITICAL + 1)
    faulthandler.enable()
    import importlib
    mod = importlib.import_module(f'vf.checks.{pid.lower()}')
    if a.replay:
        case = json.load(open(a.replay))
        if hasattr(mod, 'replay'):
            sys.exit(mod.replay(case) or 0)
        print(json.dumps(case, indent=1))
        print('(no automatic replay for this check: re-run with the recorded seed and tier)')
        sys.exit(0)
    if a.shard:
        i, n = map(int, a.shard.split('/'))
        ck = core.Check(pid, a.tier, a.seed, (i, n))
        # watchdog: a wedged shard dumps its stack and is killed by the parent (=> inconclusive)
        faulthandler.dump_traceback_later(getattr(mod, 'TIMEOUT', {}).get(a.tier, 900), exit=True)
        # a workload that is stopped by an exception (on a changed tree, set-up code of a LATER case may fail because of what an earlier case left behind) still
        # hands in what its monitors saw until then: violations found count, the rest of the shard is reported as not run (inconclusive)
        try:
            mod.run(ck)
        except Exception as ex:
            import traceback
            traceback.print_exc()
            tb = traceback.extract_tb(ex.__traceback__)
            ck.inconclusive.append(f'shard{i} stopped by {type(ex).__name__} at {tb[-1].name}:{tb[-1].lineno} after {ck.evaluations} evaluations')
        with open(a.out, 'wb') as f:
            pickle.dump(ck, f)
        return
    nsh = a.shards or getattr(mod, 'SHARDS', {}).get(a.tier, 1)
    timeout = getattr(mod, 'TIMEOUT', {}).get(a.tier, 900)
    faulthandler.dump_traceback_later(timeout + 60, exit=True)
    mod, ck = core.run_module(pid, a.tier, a.seed, nsh, timeout)
    extra = mod.verdict(ck) if hasattr(mod, 'verdict') else None
    rule = mod.RULE
    try:
        import json
        added = json.load(open(os.path.join(os.path.dirname(os.path.abspath(__file__)), 'added_families.json'))).get(pid)
        if added:
            rule = rule + ' ' + added       # families added while testing the check against seeded changes (DESIGN 2a)
    except (OSError, ValueError):
        pass
    code = core.finish(ck, rule, mod.ASSUMPTIONS, extra, getattr(mod, 'LEVEL', None))
    sys.stdout.flush()
    os._exit(code)


if __name__ == '__main__':
    main()
