#!/usr/bin/env python3
"""reverttest.py [par]: does every repaired defect come back as a VIOLATION when its repair is undone?

For every `fix:` commit of /repo: a scratch worktree of /repo HEAD (never /repo itself), `git revert --no-commit <commit>` there, then the quick check of
every property that known_findings.json lists for that commit, with VERIF_REPO pointing at the scratch tree and the evidence written elsewhere.
A `fixed` entry suppresses nothing, so the expected result is exit 1. Reverts that conflict with later repairs are reported as such (not judged).
Writes notes/REVERTS.json."""
import concurrent.futures
import json
import os
import shutil
import subprocess
import sys

V = os.path.dirname(os.path.dirname(os.path.abspath(__file__)))
REPO = '/repo'


def sh(cmd, cwd=None, env=None, timeout=3600):
    p = subprocess.run(cmd, cwd=cwd, env=env, stdout=subprocess.PIPE, stderr=subprocess.STDOUT, timeout=timeout, text=True)
    return p.returncode, p.stdout


def one(commit, props):
    wt = f'/tmp/revert-{commit}'
    ev = f'/tmp/revert-ev-{commit}'
    sh(['git', '-C', REPO, 'worktree', 'remove', '--force', wt])
    sh(['git', '-C', REPO, 'worktree', 'add', '--detach', wt, 'HEAD'])
    res = {'commit': commit, 'subject': sh(['git', '-C', REPO, 'log', '-1', '--format=%s', commit])[1].strip(), 'checks': {}}
    try:
        rc, out = sh(['git', 'revert', '--no-commit', commit], cwd=wt)
        if rc != 0:
            res['revert'] = 'conflicts-with-later-repairs'
            return res
        res['revert'] = 'clean'
        for p in props:
            env = dict(os.environ, VERIF_REPO=wt, VERIF_EVIDENCE_DIR=ev, VERIF_SEED='0')
            rc, out = sh([os.path.join(V, 'check'), p, '--tier', 'quick'], cwd=V, env=env)
            lines = [l for l in out.splitlines() if l.startswith(('VIOLATION', 'KNOWN-FINDING', 'INCONCLUSIVE')) or ' HELD ' in l or ' VIOLATED ' in l]
            mech = []
            try:
                e = json.load(open(os.path.join(ev, f'{p}.json')))
                d = os.path.join(ev, p)
                for f in sorted(os.listdir(d))[:3] if os.path.isdir(d) else []:
                    mech.append(json.load(open(os.path.join(d, f))).get('key'))
            except Exception:
                pass
            res['checks'][p] = {'rc': rc, 'reported_again': rc == 1, 'mechanisms': mech, 'tail': lines[-2:]}
    finally:
        sh(['git', '-C', REPO, 'worktree', 'remove', '--force', wt])
        shutil.rmtree(ev, ignore_errors=True)
        sh(['git', '-C', REPO, 'worktree', 'prune'])
    return res


def main():
    par = int(sys.argv[1]) if len(sys.argv) > 1 else 3
    kf = json.load(open(os.path.join(V, 'known_findings.json')))
    by_commit = {}
    for f in kf['findings']:
        if f.get('status') == 'fixed' and f.get('commit'):
            by_commit.setdefault(f['commit'], [])
            if f['property'] not in by_commit[f['commit']]:
                by_commit[f['commit']].append(f['property'])
    out = []
    with concurrent.futures.ThreadPoolExecutor(par) as ex:
        for r in ex.map(lambda kv: one(*kv), by_commit.items()):
            out.append(r)
            print(r['commit'], r['revert'], {p: (c['rc'], c['mechanisms'][:1]) for p, c in r['checks'].items()}, flush=True)
    os.makedirs(os.path.join(V, 'notes'), exist_ok=True)
    json.dump({'repo_head': sh(['git', '-C', REPO, 'rev-parse', '--short', 'HEAD'])[1].strip(), 'results': out}, open(os.path.join(V, 'notes', 'REVERTS.json'), 'w'), indent=1)
    bad = [r['commit'] for r in out if r['revert'] == 'clean' and not all(c['reported_again'] for c in r['checks'].values())]
    print('NOT REPORTED AGAIN:', bad)


if __name__ == '__main__':
    main()
