#!/usr/bin/env python3
"""Regenerates MANIFEST.json from the table below (claimed checks) + properties.jsonl (the rest => not_applicable)."""
import json
import os

V = os.path.dirname(os.path.dirname(os.path.abspath(__file__)))

CHECKS = {
    # id: (category, technique, level text, level_note, design_ref)
    'C01': ('exploration', 'runtime monitoring: every NEWSA request and IKE keyring of both daemons compared online with an independent RFC 7296 key schedule fed from the wire and the tapped DH private values; mirror-image comparison of the two model SADs after every completed negotiation',
            'Configuration pairs with differing preference orders (all ENCR key lengths, INTEG, PRF, DH groups, ESP/AH, modes, IPv4/IPv6, PSK/RSA, PFS on/off, COOKIE / INVALID_KE retries) run long histories of successful negotiations (initial, new CHILD, CHILD rekey, IKE rekey, again on the successor) sequentially and as crossing exchanges; each installed SA must carry exactly the direction keys, algorithms, addresses, mode and selectors the reference derives, each keyring must equal the reference, and both kernels must hold equal records. Held on the executions observed.',
            'honest peers, lossless delivery; lifetimes excluded from the mirror comparison (per-side jitter by design); reference = hashlib/hmac/python-int DH', '2/C01'),
    'C02': ('exploration', 'runtime monitoring with an independent active RFC 7296 party as adversary (impostor, persistent man in the middle) and an online AUTH re-verification oracle at every establishment',
            'An independent implementation (own DH, key schedule, SK protection, AUTH computation) plays initiator and responder against real endpoints with ~30 AUTH / identity / method variants per role and method; the victim may establish or install iff the reference, using the victim\'s configured credential and the exact octets the victim saw, finds AUTH and ID valid (valid controls must be accepted); protected CREATE_CHILD_SA / INFORMATIONAL / incomplete IKE_AUTH messages sent in place of IKE_AUTH must install nothing. A persistent man in the middle applies each of ~70 field-level rewrites (semantic and octets-only) to every IKE_SA_INIT request or response: the receiver must never establish. 20 pairs of mismatching configurations are run with either side initiating and every accepted AUTH is re-verified online.',
            'the adversary controls the network but has only the stated credentials; RSA verification by the cryptography primitive', '2/C02'),
    'C03': ('exploration', 'runtime monitoring: full-state snapshot equality, kernel-request counter and reply oracle around every injected non-authentic datagram (classified by an independent ICV check), in every keyed state of both roles',
            'A scenario catalogue reaches all 24 (role, keyed state) combinations incl. every request-outstanding state, REKEYED, DEL_AFTER_REKEY and rekeyed successors; in each, ~1 400 forged datagrams (cleartext of every exchange type / flag / Message ID around the window / payload set, every truncation, bit flips, resizes of authentic datagrams, messages under other keys, reflections) are fed through the real main_loop, dispatch_message and process_message; nothing observable may change and nothing may be answered except the cached IKE_SA_INIT response.',
            'snapshot = state, both counters, CHILD_SAs, DPD deadline, retransmission fields, cached response, pending events, successor, SAD, netlink request count; quick tier flips 3 bit positions per octet', '2/C03'),
    'C04': ('exploration', 'runtime differential monitoring against an independent RFC 7296 / RFC 3526 / RFC 5903 implementation: direct calls (prf+, sizes, constants, DH objects incl. leading-zero secrets, key schedule) and online comparison of every derivation in simulated histories',
            'prf+ for all output lengths (quick: dense sample), transform sizes, the five MODP primes recomputed from the RFC 3526 formula, ECP public values / secrets by integer scalar multiplication, real DH objects fed peer values whose secret has a leading zero octet, the IKE key schedule (initial and rekey with old SK_d and old PRF) and KEYMAT for every PRF x INTEG x key length with 16..256-octet nonces, and end-to-end every keyring / NEWSA key in histories covering every suite and group, with opposite CHILD preference orders on the two sides and with exchanges that cross each other.',
            'primality of the constants is out of reach (only equality with the published definitions); trusted base hashlib/hmac/python ints', '2/C04'),
    'C05': ('exploration', 'runtime differential monitoring of the message codec against an independent RFC 7296 section 3 encoder/decoder: constructor-built objects vs reference bytes, parse vs abstract content, fixed-point, framing and dump oracles over seeded generated messages',
            'Thousands of generated abstract messages (all header field combinations and payload kinds, nested SAs incl. repeated suites, IPv4/IPv6 selectors, unknown payload types, clear and inside SK) are (1) built through the library constructors and compared byte for byte with the reference encoder, (2) parsed back and compared field by field, (3) re-serialised (fixed point, also on accepted byte-mutants), (4) given unknown critical / non-critical payloads and chains that over- or under-run the data (judged by the reference decoder), (5) dumped: payload types in order, every field value visible, no exception.',
            'only RFC-valid abstract content for the encoder comparison; the dump oracle accepts text or hex for textual identities / vendor ids', '2/C05'),
    'C06': ('exploration', 'runtime monitoring of Message.parse: exception-class oracle + executed-line budget (sys.monitoring LINE events) over structure-aware hostile corpora',
            'Every parse call is watched by a line-event counter that aborts it when it exceeds a linear budget (so a non-terminating parse is detected in-process) and its outcome must be a return, InvalidSyntax or UnsupportedCriticalPayload. Corpora: random bytes, all truncations, byte mutations, a grid over every length/next/more/count/critical field at every nesting level incl. two-field combinations, and the same applied to the plaintext of protected messages re-sealed with the right keys (bad padding, non-block ciphertext, IV only).',
            'line budget constants fixed a priori (600 + 20/byte + 5/declared DELETE SPI); two cipher suites; messages up to a few hundred bytes plus random ones up to 4096', '2/C06'),
    'C07': ('exploration', 'runtime monitoring of Message.to_bytes / Message.parse: reference dissection (hmac + AES-CBC primitive) of every emitted protected message, round-trip equality, tamper-rejection oracle over every octet x bit / truncation / extension / foreign key, and a wire monitor in simulated histories',
            'All 6 cipher/integrity pairs x every plaintext residue mod 16 and random payload lists: the ICV must be the negotiated truncated HMAC over everything before it, the body IV + whole blocks with a correct Pad Length, nothing but SK in the clear, and parsing must give back the same payloads. 36 representative messages (every exchange kind incl. empty bodies x suite) are tampered at every octet (all 8 bits outside the ciphertext, 3 inside in the quick tier), truncated at every length, extended by 1..32 octets with and without fixing the length fields, and checked under another SK_a / SK_e: the outcome must be a protocol error. Every datagram after IKE_SA_INIT in simulated histories must carry only SK in the clear.',
            'AES-CBC and HMAC primitives trusted; tampering judged at the Message.parse level', '2/C07'),
    'C08': ('exploration', 'runtime monitoring: Message-ID window automaton and header-stamping monitor fed online with every real main_loop iteration, over exhaustive small and random large deliver/duplicate/drop/late-replay schedules of authentic traffic',
            'For every exchange kind on both roles (also with configurations that force an INVALID_KE_PAYLOAD retry) all schedules of deliver / <=2 duplicates / <=1 drop are enumerated and executed (plus random walks with loss, duplication and late replays of datagrams recorded earlier, incl. towards rekeyed predecessors and successors). The automaton keeps its own record of executed request IDs, accepted response IDs, first reply bytes and emitted requests and flags: execution outside the window or twice, a replay not answered byte-identically from the cache, any effect of an out-of-window message, a response accepted without matching outstanding request, non-consecutive or overlapping own requests, wrong version / SPIs / flags / exchange type / length on any emitted datagram.',
            'honest peers, datagrams copied/delayed/reordered/lost but never modified; duplicate budget 2 and drop budget 1 in the exhaustive part', '2/C08'),
    'C09': ('exploration', 'runtime monitoring of the real event loop: collision monitor + quiescence oracle over exhaustively enumerated and random message-level schedules',
            'Every ordered list of <=2 (thorough: sampled 3) local triggers on either endpoint is interleaved in every possible way with the delivery order of in-flight datagrams, each leaf re-executed through the real main_loop; plus thousands of seeded lossless/lossy walks. After every step: no exception escapes an entry point, no IkeSaStateError, no generic-exception recovery, the (state,event,state\') triple is in the allowed relation, collisions are answered per RFC 7296 2.25; after a lossless drain nobody waits and both tables agree. Held on the executions observed, nothing more.',
            'honest peers with mirror-image configurations; fake kernel and network; timers fired by making the deadline due; transition relation written by hand from the RFC (DESIGN.md appendix A)', '2/C09'),
    'C10': ('fault_enumeration', 'runtime monitoring: model SAD (decoded from the real netlink request bytes) compared with the tracked CHILD_SAs after every real main_loop iteration, under a kernel refusal injected at every request index',
            'For ~30 scripted histories (all negotiation paths, collisions, refused negotiations, INVALID_KE retries, timeouts) a kernel error is injected at each individual netlink request of each endpoint, one run per index; after every event the model SAD must equal the tracked set, an IKE rekey must not touch the kernel and no un-injected EEXIST/ESRCH may occur. Random lossless/lossy walks add unscripted histories.',
            'fake kernel semantics (EEXIST/ESRCH like Linux, injected refusal = nothing applied); tracked set read from the controller between iterations', '2/C10'),
    'C11': ('exploration', 'runtime differential monitoring of proposal selection against an independent reference: exhaustive small universe at function level, wire-shadow comparison end to end, and tampered responses from an independent responder with valid AUTH',
            'All 624 x 624 ordered sub-list pairs over two identifiers per transform type (thorough; a tenth in quick) for matching and mismatching protocols plus foreign identifiers: Proposal.intersection / is_subset / first-acceptable-proposal selection must equal the reference. End to end over random configuration pairs the suite in every IKE_SA_INIT, IKE_AUTH and CREATE_CHILD_SA response (opened by the wire shadow) must equal the reference selection from the responder\'s order and the initiator\'s offer; KE group == chosen DH; INVALID_KE_PAYLOAD names the chosen group; NO_PROPOSAL_CHOSEN and nothing installed when nothing is common; the initiator installs only a complete single choice from its offer; algorithms and key lengths in every NEWSA are the negotiated ones. 30 tampered IKE / CHILD proposals and bogus INVALID_KE_PAYLOAD suggestions from an independent, correctly authenticated responder must be refused.',
            'a response with two transforms of one type may be refused or accepted', '2/C11'),
    'C12': ('exploration', 'runtime monitoring of traffic-selector handling against explicit packet-set semantics: exhaustive small universe for containment, random networks for the conversions, independent initiator / responder (valid AUTH) for narrowing, refusal, widened responses and mode',
            'All 3 x 32 400 ordered selector pairs over a 4-address x 3-port x 3-protocol universe are compared with inclusion of the explicit 36-packet sets; network/port conversions round-trip for all prefix lengths; an independent initiator sends 1-3-element TSi/TSr lists against 1- and 3-entry policies (installed selectors must lie inside a proposed selector and inside the policy, kernel selectors inside the policy networks and port ranges, requests that share no packet with any policy entry or ask the other mode get exactly TS_UNACCEPTABLE and install nothing); an independent responder answers with selectors widened per field and per side, swapped, or with the other mode (nothing may be installed); CHILD rekeys keep the selectors.',
            'well-formed selectors only; partial overlaps may be refused or narrowed', '2/C12'),
    'C13': ('fault_enumeration', 'runtime monitoring under a virtual clock: retransmission / DPD / lifetime / give-up monitors fed with every real main_loop iteration, over every subset of lost transmissions, tick sequences and a partition injected after every micro-step',
            'Every request kind on both roles x all 16 subsets of lost transmissions x four tick sequences; the same after COOKIE / INVALID_KE_PAYLOAD retries; a partition after every micro-step of ten scripted histories, half of them with an event waking every later loop iteration (both sides must empty their SAD within dpd + 20 s + 3 ticks); two IKE_SAs with the same peer rekeying with lost first transmissions; idle pairs run to twice the lifetime; a peer answering every rekey with TEMPORARY_FAILURE. Monitors: byte-identical retransmissions, never before the deadline, non-decreasing gaps, budget respected and used, nothing re-sent after its response, nothing waiting > 45 s, SAD == tracked set at every step, DPD probe timing, rekey start window, DELETE 30 s after a rekey that keeps failing.',
            'virtual time; deadlines read from the IKE_SA between iterations; one tick = one loop iteration per endpoint', '2/C13'),
    'C14': ('exploration', 'runtime differential monitoring of every netlink request against a C decoder / encoder compiled from the installed kernel UAPI headers (ASan+UBSan build in the thorough tier), plus a bounds hook on the one raw memmove',
            'The bytes the real send_recv hands to the socket for generated create_sa / create_policy / delete_sa / flush arguments (all families incl. mixed selector/tunnel families, prefix lengths, ports, protocols, algorithms, key sizes, lifetimes, SPIs, indices, directions) are decoded with the kernel structs and NLMSG/RTA macros and every field is compared with the argument; the python decoder the fake kernel uses is cross-checked on the same bytes; ACQUIRE / EXPIRE / ack / error messages encoded the kernel\'s way from random values (also truncated, over-long, with foreign port ids) must parse to the same values, errors must raise, acks succeed.',
            'x86-64 ABI of the installed headers; gcc/clang and sanitizer runtime trusted', '2/C14'),
    'C15': ('fault_enumeration', 'runtime monitoring of the model SPD/SAD built from the real netlink bytes after controller start / stop / restart at every micro-step, and of the offers that follow kernel-encoded ACQUIREs (opened by the wire shadow)',
            'Hundreds of random valid configurations are loaded on a fake kernel that holds stale state: flush first, SAD empty, SPD exactly the out/in/fwd triple per protect entry with the right index, selectors, templates, protocol and mode; empty again after close(). A scripted history is cut after every micro-step on either endpoint and the controller rebuilt on the same kernel. ACQUIREs at the corners of every entry (incl. IPv6 networks in an IPv4 tunnel) must go to the connection\'s peer, re-use the established IKE_SA, and offer the entry\'s proposal / mode with TSi/TSr containing the acquire and the entry and lying inside the entry; unknown indices are ignored without leaving state; a second ACQUIRE during the handshake is queued and served.',
            'fake kernel SPD keyed by (selector, direction) with EEXIST like Linux', '2/C15'),
    'C16': ('exploration', 'runtime monitoring: table-exactness, routing, status-query and EXPIRE-owner monitors after every real main_loop iteration',
            'Table invariants (no duplicate, no DELETED entry, nothing returns, successor exactly once, an IKE_SA leaves the table only when it has ended, nothing waits longer than 45 s) and routing (owner of the header SPI selected by the I flag; fresh responder per IKE_SA_INIT request; unknown SPI has no effect) are evaluated after every step of exhaustive <=1-duplicate and sampled <=3-duplicate schedules of rekey/delete exchanges, hub histories with several concurrent IKE_SAs and simultaneous initiations, held-back DELETEs, ACQUIREs while busy, unanswered requests, dispatch-level granularity, a forged-header SPI x flag x exchange matrix, status queries and EXPIRE notices incl. peer-chosen SPI collisions across IKE_SAs and inside one IKE_SA.',
            'fake kernel/network; forged datagrams are unauthenticated (routing observed, not acceptance); SPI collision forced through the peer\'s os.urandom', '2/C16'),
    'C17': ('fault_enumeration', 'runtime monitoring of the real main_loop: loop-exit-kind oracle + executed-line budget per iteration + honest-bystander service check, under hostile datagrams / kernel events and an OSError injected at every sendto / netlink call index',
            'A hub daemon with an honest bystander peer is fed, one real main_loop iteration at a time, the C06 hostile corpus from configured and unconfigured addresses, protocol oddities, authentic-but-malformed protected messages built with an established peer\'s real keys, odd kernel messages, and OSError from sendto / the netlink socket at every call index of base histories. Every iteration must come back to select (not die), within a fixed executed-line budget, and the bystander must still complete a handshake and CHILD_SA rekey with mirror-image SADs afterwards.',
            'one event per loop iteration; line budget constants fixed a priori (4000 + 20/byte + 40/declared DELETE SPI + 800/IKE_SA); fake kernel/network', '2/C17'),
    'C18': ('exploration', 'runtime monitoring of the cookie mechanism: DH-operation taps, reply-shape / table / cookie-value oracle (HMAC recomputed with hmac) over a threshold x half-open x established x cookie-variant grid through the real main_loop; initiator retry shape against an independent responder',
            'Thresholds {0,3,10} x established {0,1,3} x half-open counts around the threshold x 14 cookie variants (absent, right, bit flips, truncated, extended, replayed with another SPI / nonce / source address, several cookies, previous incarnation): once the half-open count exceeds the threshold a request without a right cookie must get exactly N(COOKIE) with the HMAC value, cause zero DH operations and leave no IKE_SA; the right cookie must be accepted. A real initiator answered with N(COOKIE) must repeat its request with the cookie first and identical payloads, answer a second challenge with the new cookie first, and complete against the independent responder.',
            'at the boundary (count == threshold) either behaviour is accepted', '2/C18'),
    'C19': ('exploration', 'runtime differential monitoring of Configuration() against an independent reader of the documented keys, plus exception-class oracle, over a grammar of valid / missing / ill-typed / out-of-range / unknown values at every level',
            'Thousands of generated dictionaries (1-3 connections, PSK / RSA, IPv4 / IPv6, 1-3 protect entries; 0-3 mutations per dictionary over every documented key at connection, auth and protect level): loading either returns or raises ConfigurationError; what is accepted equals, field by field, what the documentation says (proposals in listed order with defaults, no ENCR for AH, NO_ESN, selectors, ports, protocol, mode, lifetimes, DPD, identities, PSK, key presence, index); what the documentation forbids (non-listening local address, unknown names, wrong list types, unparsable keys, missing mandatory keys) is rejected.',
            'numeric addresses only; values the documentation is silent about must be stored as given', '2/C19'),
    'C20': ('exploration', 'runtime monitoring of the log: every record at the default level (and the text of internal-error paths) searched for every secret derived by the independent wire shadow / DH taps / configuration, with a DEBUG-level positive control',
            'Five families of histories (long successful histories, authentication failures against an independent impostor, mismatching configurations, kernel refusals at every request index, hostile datagrams + lossy walks) run with the root logger configured as the daemon does without -v; ~38 000 INFO+ records are searched for ~7 000 secrets (PSKs, SKEYSEED, SK_*, CHILD keys, DH secrets) in text, hex, bytes-repr and base64 form; an eighth of the histories runs at DEBUG and must show keys.',
            'secrets < 8 octets not searched; records searched after formatting', '2/C20'),
}


# families added while the checks were strengthened against five rounds of independently seeded changes (DESIGN.md sections 2a and 6); the RULE string that each
# check prints into its evidence file is the full and current description
ADDED = {
    'C01': 'Also: exchanges that cross each other with PFS, lossy and hub families, 6in4 / 4in6 tunnels.',
    'C02': 'Also: mixed-method connections (victim PSK, peer public key only), AUTH replayed from an earlier session, CREATE_CHILD_SA in place of IKE_AUTH.',
    'C03': 'Also: critical / unimplemented outer payloads, an outer payload spliced before SK, a sweep over 34 notification types, forgeries from other source addresses, and ONE loop turn with an authentic request and a forgery on two sockets of a multi-homed victim.',
    'C04': 'Also: INVALID_KE_PAYLOAD retries inside IKE_SA rekeys and PFS CHILD_SA exchanges for every pair of group kinds; key pairs generated until the own MODP public value has a leading zero octet.',
    'C05': 'Also: serialise-edit-serialise, reference-sealed messages with up to 15 extra blocks of padding, and the dump read back from the DEBUG log record.',
    'C06': 'Also: 17 extreme well-formed shapes at 3-48 KB (thorough 64 KB), a long-lived parser process, text hostile to pattern matching, SK pathologies behind a cleartext payload, and a CPU-time bound per call with a virtual-time alarm.',
    'C07': 'Also: one Crypto object across a message sequence, every legal amount of extra padding, cleartext payloads in front of SK, extension at the front and insertion / removal of single octets.',
    'C08': 'Also: a zero responder SPI in every IKE_SA_INIT request emitted (repeats after COOKIE / INVALID_KE_PAYLOAD included).',
    'C09': 'Also: a queue-aware transition relation, the retransmission monitor in the walks and in the exhaustive part, and an oracle for requests given up although nothing was lost and the peer still holds the IKE_SA.',
    'C10': 'Also: 6in4 / 4in6 / wide-subnet tunnels, authentic requests from another source address, equal SPI values at both ends, Linux-like port ids in kernel answers, restarts with an edited configuration.',
    'C11': 'Also: an INVALID_KE_PAYLOAD suggestion sweep over all small group numbers (IKE_SA_INIT, IKE rekey, PFS CHILD rekey), IKE rekey selections judged against the preference order as written, pairs under cookie mode.',
    'C12': 'Also: policies whose entries have different modes (grid), crafted rekey requests with other selectors or the other mode, initiator checks on later exchanges, answers with several selectors per payload, policies that rely on defaults.',
    'C13': 'Also: one-way partitions, a peer that restarts and comes back with a new IKE_SA, retries after the original request had been retransmitted, hundreds of exchanges on one IKE_SA (Message IDs beyond 256).',
    'C14': 'Also: kernel answers carrying other port ids, FLUSHSA protocol octet 0 or 255.',
    'C15': 'Also: FLUSHSA protocol semantics with stale SAs of every protocol, restarts with an edited configuration, ACQUIRE bursts while the IKE_SA is busy, offers compared with the entry as written, special protocol / port points, an ACQUIRE sharing its loop turn with other events.',
    'C16': 'Also: EXPIRE notices that echo the installed SA with mixed-family SPI collisions, a never-quiet network, unprocessable IKE_SA_INIT requests, no INITIAL IKE_SA between loop iterations, DELETE payload lists of an independent peer.',
    'C17': 'Also: persistent kernel refusals with a timer-service probe, failures to open the netlink socket, events that raise while a retransmission is due (validated select timeout), authentic responses with SPIs of impossible sizes, floods of acceptable IKE_SA_INIT requests between handshake steps, a never-quiet network.',
    'C18': 'Also: requests re-using the SPI of a half-open IKE_SA, the daemon\'s own IKE_SAs before the flood, retransmission of the cookie-bearing request, AUTH verified after the cookie rounds.',
    'C19': 'Also: objects shared between connections (YAML anchors), IPv4-mapped local addresses, a systematic single-value sweep, secrets that look like another notation, non-text connection names, a scripted resolver with multi-address host names.',
    'C20': 'Also: texts logged for configuration dictionaries and files that cannot be loaded (the real start-up path as a subprocess), kernel error replies that echo the refused request.',
}
for _k, _v in ADDED.items():
    _c = CHECKS[_k]
    CHECKS[_k] = (_c[0], _c[1], _c[2] + ' ' + _v, _c[3], _c[4])

READY = set(CHECKS)     # an entry is added to CHECKS only when its check holds on the unchanged tree


def main():
    props = [json.loads(l) for l in open(os.path.join(V, 'properties.jsonl'))]
    checks, na = [], []
    for p in props:
        pid = p['id']
        if pid in CHECKS and pid in READY:
            cat, tech, text, note, ref = CHECKS[pid]
            checks.append({
                'property_id': pid,
                'quick_cmd': f'./check {pid} --tier quick',
                'thorough_cmd': f'./check {pid} --tier thorough',
                'evidence_file': f'evidence/{pid}.json',
                'replay_cmd_template': f'./check {pid} --replay {{path}}',
                'engine': 'vf',
                'level_claimed': {'category': cat, 'text': text, 'design_ref': f'DESIGN.md section {ref}'},
                'level_note': note,
                'technique': tech,
            })
        else:
            na.append({'property_id': pid, 'reason': 'check not implemented (see DESIGN.md section 2)'})
    m = {
        'version': 1,
        'setup_cmd': './setup.sh',
        'hooks': {
            'guard': 'PYIKEV2_VERIF',
            'enable': 'no source hooks: every observation point is patched in from the harness (module attributes, class wrappers, sys.monitoring); the guard name is reserved and unused. The /repo commits are all unguarded fix: commits (see known_findings.json)',
            'baseline_off_cmd': 'cd /repo && /venv/bin/python -m pytest -ra -q -p no:cacheprovider --timeout=900 --continue-on-collection-errors',
            'source_commits': [],
            'add_only': True,
        },
        'engines': [{'name': 'vf', 'path': 'vf/', 'serves_properties': sorted(READY),
                     'kind_free_text': 'runtime monitoring harness: real pyikev2 objects stepped through their real event loop on a fake kernel / network / clock, with independent RFC references as oracles'}],
        'checks': checks,
        'not_applicable': na,
        'notes': 'Exit codes: 0 held on everything observed, 1 violation (VIOLATION line), 2 inconclusive (deciding monitor not reached often enough or a shard timed out). known_findings.json lists genuine defects (known / fixed).',
    }
    json.dump(m, open(os.path.join(V, 'MANIFEST.json'), 'w'), indent=1)
    print(f'{len(checks)} checks, {len(na)} not applicable')


if __name__ == '__main__':
    main()
