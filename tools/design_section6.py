#!/usr/bin/env python3
"""Rewrites section 6 of DESIGN.md (seeded changes) from seeded/*/meta.json: header paragraph with the counts + the table of tools/seedtable.py."""
import glob
import json
import os
import subprocess
V = os.path.dirname(os.path.dirname(os.path.abspath(__file__)))
p = os.path.join(V, 'DESIGN.md')
s = open(p).read()
i = s.index('## 6. Seeded property-breaking changes')
table = subprocess.run(['python3', os.path.join(V, 'tools', 'seedtable.py')], capture_output=True, text=True).stdout
metas = [json.load(open(f)) for f in sorted(glob.glob(os.path.join(V, 'seeded', '*', 'meta.json')))]
n = len(metas)
rounds = sorted({(int(m['id'].split('-s')[1]) + 1) // 2 for m in metas})
first_missed = sum(1 for m in metas if m.get('strengthened'))
neutral = [m['id'] for m in metas if m.get('neutralised_by_fix')]
per_round = ', '.join(f"{sum(1 for m in metas if m.get('strengthened') and (int(m['id'].split('-s')[1]) + 1) // 2 == k)} in round {k}" for k in rounds)
themes = {1: 'any realistic break', 2: 'the less obvious corners', 3: 'CONJUNCTIONS of at least two specific conditions',
          4: 'state leaking between IKE_SAs / peers / messages, long-lived daemons, hand-over and clean-up paths, values at the edge of a representation',
          5: 'what a simulation like this one is structurally inclined to miss (what the harness replaces or fixes, several events in one loop turn, boundary arithmetic after hundreds of exchanges, rarely configured table entries, two modules cooperating, the second time something happens)',
          6: 'legal but unusual peers, kernel messages and configuration spellings that pyikev2 itself never produces',
          7: 'changes placed in the 46 functions no earlier change had touched, disguised as improvements (optimisation, simplification, hardening, modernisation)',
          8: 'regressions of the 25 repairs (a variant of a repaired defect: a neighbouring path, a guard that no longer holds, a simplification of the fix) and the edges of the process (start-up, shutdown, status socket, logging set-up)',
          9: 'the less-travelled corners of the configuration space (IPv6 and mixed-family tunnels, AH, RSA, lifetime -1, several connections) and numeric boundaries',
          10: 'defects that hide in Python semantics (aliasing and in-place mutation, class-level state, truthiness of 0 / empty values, identity versus equality, exceptions raised inside handlers, signed struct formats, int constructors)',
          11: 'breaks that need TWO INDEPENDENT ADVERSE EVENTS in one history, or a legal event arriving in a RARE STATE, and roll-back / clean-up code that runs only then',
          12: 'TIME and the order of work inside one loop turn (deadlines computed from the wrong base, several deadlines due in one turn, a process that was suspended for minutes, events served in the turn in which a deadline expires, counters and jitter that drift)',
          13: 'a BUSIER daemon (three or more peers, several connections, several local addresses, several protect entries, many CHILD_SAs: state looked up by the wrong key, cross-talk between connections, the 2nd / 3rd element of a list) and the small helpers the state machine relies on',
          14: 'OPEN (ten properties with the most recent misses only): whatever the author judged least likely to be exercised - fixes with a side effect, behaviour that depends on the history of an object, four-step sequences, role / family / protocol / mode asymmetries, the right value in the wrong place',
          15: 'DATA- and HISTORY-DEPENDENT breaks (twelve properties: the ten that round 14 left out, plus C10 and C17): behaviour that differs only for particular byte values or lengths drawn at run time (an SPI / nonce / cookie / key / IV / DH value that starts or ends with 0x00 / 0xff, has its top bit set, is exactly one block / 255 / 256 / 65535 octets long, zero or full-block padding), only for a legal non-default algorithm / group / identity / family combination, only the third time something happens to an object or after an earlier failure left a field set, or the right computation applied to the wrong one of two values that coincide in symmetric set-ups'}
head = f"""## 6. Seeded property-breaking changes and which checks catch them

{n} changes in {len(rounds)} rounds (two per property and round; the fourteenth round covered ten properties and one of its authors delivered a single change, the fifteenth covered twelve), each written by a fresh sub-agent that saw only the property text and a scratch worktree of /repo
(nothing from /verif), each confirmed independently in a new scratch worktree (patch applies, 176 tests unchanged, the author's demo fails with and
passes without it) and stored as `seeded/<id>/{{patch.diff, demo.py, notes.md, meta.json}}`. `tools/seedtest.py run <id> [checks]` re-runs any of them
against a scratch worktree of the current /repo HEAD (never against /repo itself); `seeded/MATRIX.json` holds the first 80 against all 20 checks.
The rounds asked for: {'; '.join(f'({k}) {themes.get(k, "")}' for k in rounds)}.

At the final /repo HEAD every one of them is caught by the quick tier of the check of its own property, except {', '.join(neutral) or 'none'}, which a later
repair of the repository neutralised (its author's demo passes on the patched tree; kept for the record). {first_missed} of the {n} were MISSED when first
run ({per_round}) and led to the strengthening named in the last column; asides of sub-agents and several of the new families exposed genuine
defects of the pinned tree (section 3). Seeds whose patch no longer applied after a repair of the repository were rebased by hand and re-confirmed.
After every repair, and after every round of changes to the checks, all seeds are re-run: that is how the regression on C17-s2 (caught at first, missed after later fixes changed which paths raise,
caught again after C17 was strengthened) was found, and how a change to C13 made in round 10 was found to have cost the detection of C13-s13 (section 5).

"""
open(p, 'w').write(s[:i] + head + table)
print(n, 'seeds;', first_missed, 'first missed;', 'neutralised:', neutral)
