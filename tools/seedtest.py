#!/usr/bin/env python3
"""Confirm a seeded property-breaking change and run the checks against it.

  seedtest.py confirm <src_dir> <seed_id> <property>   verify (scratch worktree): patch applies, repo tests unchanged, demo fails with / passes
                                                       without; then store it as /verif/seeded/<seed_id>/ {patch.diff, demo.py, notes.md, meta.json}
  seedtest.py run <seed_id> [check ids...]             apply seeded/<seed_id>/patch.diff to a scratch worktree of /repo HEAD, run the quick checks with VERIF_REPO pointing
                                                       there, remove the worktree; record in meta.json (never touches /repo itself)
  seedtest.py matrix [par]                             every seed x every registered check; writes seeded/MATRIX.json
"""
import json
import os
import re
import shutil
import subprocess
import sys
import time

V = os.path.dirname(os.path.dirname(os.path.abspath(__file__)))
REPO = '/repo'
PYTEST = ['/venv/bin/python', '-m', 'pytest', '-q', '-p', 'no:cacheprovider', '--timeout=900', '--continue-on-collection-errors']


def sh(cmd, cwd=None, timeout=1200):
    p = subprocess.run(cmd, cwd=cwd, stdout=subprocess.PIPE, stderr=subprocess.STDOUT, timeout=timeout, text=True)
    return p.returncode, p.stdout


def tests_summary(tree):
    rc, out = sh(PYTEST, cwd=tree)
    m = re.search(r'(\d+) failed, (\d+) passed', out) or re.search(r'()(\d+) passed', out)
    return (int(m.group(1) or 0), int(m.group(2))) if m else (None, None)


def confirm(src, sid, prop):
    wt = f'/tmp/seedconfirm-{sid}'
    sh(['git', '-C', REPO, 'worktree', 'remove', '--force', wt])
    rc, out = sh(['git', '-C', REPO, 'worktree', 'add', '--detach', wt, 'HEAD'])
    res = {'property': prop, 'confirmed_at_repo_head': sh(['git', '-C', REPO, 'rev-parse', '--short', 'HEAD'])[1].strip()}
    try:
        demo, patch = os.path.join(src, 'demo.py'), os.path.join(src, 'patch.diff')
        rc0, out0 = sh(['/venv/bin/python', demo], cwd=wt, timeout=300)
        res['demo_without_patch_rc'] = rc0
        rc, out = sh(['git', 'apply', patch], cwd=wt)
        if rc != 0:
            rc, out = sh(['git', 'apply', '-3', patch], cwd=wt)
        res['patch_applies'] = rc == 0
        if rc != 0:
            res['apply_output'] = out[-500:]
        else:
            res['tests_with_patch'] = tests_summary(wt)
            rc1, out1 = sh(['/venv/bin/python', demo], cwd=wt, timeout=300)
            res['demo_with_patch_rc'] = rc1
            res['demo_with_patch_tail'] = out1[-400:]
            # refresh the diff against the current HEAD so that it applies to /repo as it is now
            _, diff = sh(['git', 'diff'], cwd=wt)
            res['diff'] = diff
        ok = res.get('patch_applies') and res.get('tests_with_patch') == (11, 176) and rc0 == 0 and res.get('demo_with_patch_rc', 0) != 0
        res['confirmed'] = bool(ok)
    finally:
        sh(['git', '-C', REPO, 'worktree', 'remove', '--force', wt])
    if res['confirmed']:
        d = os.path.join(V, 'seeded', sid)
        os.makedirs(d, exist_ok=True)
        with open(os.path.join(d, 'patch.diff'), 'w') as f:
            f.write(res.pop('diff'))
        shutil.copy(os.path.join(src, 'demo.py'), os.path.join(d, 'demo.py'))
        notes = open(os.path.join(src, 'notes.md')).read() if os.path.exists(os.path.join(src, 'notes.md')) else ''
        with open(os.path.join(d, 'notes.md'), 'w') as f:
            f.write(notes)
        meta = {'id': sid, 'breaks_property': prop, 'origin': 'independent sub-agent given only the property text and a scratch worktree',
                'needs_to_manifest': notes.strip()[:1500], 'confirmation': {k: v for k, v in res.items() if k != 'diff'},
                'what_i_ran': ['git apply patch.diff in a scratch worktree of /repo HEAD', ' '.join(PYTEST) + '  -> 176 passed / the same 11 pre-existing failures',
                               'python demo.py -> rc 0 without the patch, rc != 0 with it'], 'checks': {}}
        json.dump(meta, open(os.path.join(d, 'meta.json'), 'w'), indent=1)
    res.pop('diff', None)
    print(json.dumps(res, indent=1))
    return 0 if res['confirmed'] else 1


def run(sid, checks, save=True):
    """Runs the quick checks against seeded/<sid> applied to a SCRATCH worktree of /repo HEAD (VERIF_REPO points the checks at it);
    /repo itself is never touched, so runs can go on in parallel with other work."""
    d = os.path.join(V, 'seeded', sid)
    meta = json.load(open(os.path.join(d, 'meta.json')))
    checks = checks or [meta['breaks_property']]
    wt = f'/tmp/seedrun-{sid}-{os.getpid()}'
    sh(['git', '-C', REPO, 'worktree', 'remove', '--force', wt])
    rc, out = sh(['git', '-C', REPO, 'worktree', 'add', '--detach', wt, 'HEAD'])
    if rc != 0:
        print('cannot create a scratch worktree:\n' + out)
        return 2
    try:
        rc, out = sh(['git', 'apply', os.path.join(d, 'patch.diff')], cwd=wt)
        head = sh(['git', '-C', REPO, 'rev-parse', '--short', 'HEAD'])[1].strip()
        if rc != 0:
            # a later repair of the repository touched the same lines: three-way merge against the blobs the patch names; kept only if it merges without
            # conflict AND the author's demonstration still fails on the result (then the refreshed diff replaces the stored one)
            rc3, out3 = sh(['git', 'apply', '-3', os.path.join(d, 'patch.diff')], cwd=wt)
            conflict = rc3 != 0 or '<<<<<<<' in sh(['git', 'diff'], cwd=wt)[1]
            if conflict:
                print(f'{sid}: patch does not apply to /repo HEAD (three-way merge conflicts):\n' + out)
                return 2
            sh(['git', 'reset', '-q'], cwd=wt)
            rcd, outd = sh(['/venv/bin/python', os.path.join(d, 'demo.py')], cwd=wt, timeout=600)
            if rcd == 0:
                print(f'{sid}: merged onto /repo HEAD, but its demonstration no longer fails there (neutralised by a repair?)')
                meta['rebase_attempt'] = {'repo_head': head, 'demo_rc_with_merged_patch': 0}
                json.dump(meta, open(os.path.join(d, 'meta.json'), 'w'), indent=1)
                return 2
            _, diff = sh(['git', 'diff'], cwd=wt)
            open(os.path.join(d, 'patch.diff'), 'w').write(diff)
            meta['rebased_at'] = head
            print(f'{sid}: patch merged onto /repo HEAD {head} (demo still fails with it), stored diff refreshed')
        for c in checks:
            t = time.time()
            env = dict(os.environ, VERIF_EVIDENCE_DIR=f'/tmp/seedtest-evidence-{os.getpid()}', VERIF_REPO=wt)
            p = subprocess.run(['./check', c, '--tier', 'quick'], cwd=V, stdout=subprocess.PIPE, stderr=subprocess.STDOUT, text=True, timeout=3000, env=env)
            viol = [l for l in p.stdout.splitlines() if l.startswith('VIOLATION')]
            mech = [l.strip()[:300] for l in p.stdout.splitlines() if l.strip().startswith('mechanism:')]
            meta['checks'][c] = {'rc': p.returncode, 'violations': len(viol), 'mechanisms': mech[:4], 'wall_s': round(time.time() - t, 1),
                                 'repo_head': head, 'detected': p.returncode == 1 and bool(viol)}
            print(f"{sid} vs {c}: rc={p.returncode} violations={len(viol)} {'DETECTED' if meta['checks'][c]['detected'] else 'MISSED'}  {mech[:2]}", flush=True)
        shutil.rmtree(f'/tmp/seedtest-evidence-{os.getpid()}', ignore_errors=True)
    finally:
        sh(['git', '-C', REPO, 'worktree', 'remove', '--force', wt])
    if save:
        json.dump(meta, open(os.path.join(d, 'meta.json'), 'w'), indent=1)
    return 0


def matrix(par):
    """Every seed against every registered check (quick tier), `par` seeds at a time; writes seeded/MATRIX.json."""
    ids = sorted(x for x in os.listdir(os.path.join(V, 'seeded')) if os.path.isdir(os.path.join(V, 'seeded', x)))
    checks = [c['property_id'] for c in json.load(open(os.path.join(V, 'MANIFEST.json')))['checks']]
    procs, res = [], {}
    todo = list(ids)
    while todo or procs:
        while todo and len(procs) < par:
            sid = todo.pop(0)
            procs.append((sid, subprocess.Popen([sys.executable, os.path.abspath(__file__), 'run', sid] + checks, stdout=subprocess.PIPE, stderr=subprocess.STDOUT, text=True)))
        for sid, p in list(procs):
            if p.poll() is not None:
                out = p.stdout.read()
                print(out, end='', flush=True)
                procs.remove((sid, p))
        time.sleep(1)
    for sid in ids:
        m = json.load(open(os.path.join(V, 'seeded', sid, 'meta.json')))
        res[sid] = {c: ('caught' if r.get('detected') else f"missed(rc={r.get('rc')})") for c, r in m.get('checks', {}).items()}
    json.dump(res, open(os.path.join(V, 'seeded', 'MATRIX.json'), 'w'), indent=1, sort_keys=True)
    return 0


if __name__ == '__main__':
    if sys.argv[1] == 'confirm':
        sys.exit(confirm(sys.argv[2], sys.argv[3], sys.argv[4]))
    if sys.argv[1] == 'matrix':
        sys.exit(matrix(int(sys.argv[2]) if len(sys.argv) > 2 else 3))
    sys.exit(run(sys.argv[2], sys.argv[3:]))
