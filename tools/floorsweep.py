#!/usr/bin/env python3
"""tools/floorsweep.py <tier> <seed>...  runs every check per seed and reports, per floor, the smallest value/floor ratio seen."""
import json, os, subprocess, sys
V = os.path.dirname(os.path.dirname(os.path.abspath(__file__)))
tier, seeds = sys.argv[1], sys.argv[2:]
worst = {}
bad = []
for sd in seeds:
    out = subprocess.run([os.path.join(V, 'tools', 'runall.sh'), tier, sd], cwd=V, stdout=subprocess.PIPE, text=True, env=dict(os.environ, PAR=os.environ.get('PAR', '6'))).stdout
    for line in out.splitlines():
        if ' rc=0 ' not in line:
            bad.append((sd, line[:200]))
    for f in sorted(os.listdir(os.path.join(V, 'evidence'))):
        ev = json.load(open(os.path.join(V, 'evidence', f)))
        for name, (val, mn) in ev['coverage'].get('floors', {}).items():
            r = val / mn if mn else 99
            k = (ev['property_id'], name)
            if k not in worst or r < worst[k][0]:
                worst[k] = (r, val, mn, sd)
print('NON-ZERO EXITS:', bad)
for k, v in sorted(worst.items(), key=lambda kv: kv[1][0])[:40]:
    print(f'{v[0]:6.2f}x  {k[0]} {k[1]}: {v[1]} vs floor {v[2]} (seed {v[3]})')
