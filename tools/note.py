#!/usr/bin/env python3
"""note.py <seed id> <text>: record in seeded/<id>/meta.json how the checks were strengthened after first missing this change."""
import json, os, sys
V = os.path.dirname(os.path.dirname(os.path.abspath(__file__)))
p = os.path.join(V, 'seeded', sys.argv[1], 'meta.json')
m = json.load(open(p))
m['first_missed'] = True
m['strengthened'] = sys.argv[2]
json.dump(m, open(p, 'w'), indent=1)
