#!/bin/bash
# tools/runall.sh [tier] [seed]  -- run every registered check (4 at a time), print one line each
cd "$(dirname "$0")/.."
tier=${1:-quick}; seed=${2:-0}
ids=$(python3 -c "import json;print(' '.join(c['property_id'] for c in json.load(open('MANIFEST.json'))['checks']))")
mkdir -p .work/runall
run() { c=$1; s=$(date +%s); VERIF_SEED=$seed ./check $c --tier $tier > .work/runall/$c.$tier.$seed.log 2>&1; rc=$?; echo "$c rc=$rc $(( $(date +%s)-s ))s $(grep -E '^C[0-9]+ (HELD|VIOLATED|INCONCLUSIVE)' .work/runall/$c.$tier.$seed.log | cut -c1-120) $(grep -c '^KNOWN-FINDING' .work/runall/$c.$tier.$seed.log) known"; }
export -f run; export tier seed
echo $ids | tr ' ' '\n' | xargs -P ${PAR:-4} -I{} bash -c 'run {}'
