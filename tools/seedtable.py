#!/usr/bin/env python3
"""Prints the markdown table of seeded changes (DESIGN.md section 6) from seeded/*/meta.json."""
import glob
import json
import os
V = os.path.dirname(os.path.dirname(os.path.abspath(__file__)))
rows = []
for f in sorted(glob.glob(os.path.join(V, 'seeded', '*', 'meta.json'))):
    m = json.load(open(f))
    notes = m.get('needs_to_manifest', '')
    title = next((l.strip('# ').strip() for l in notes.splitlines() if l.strip()), '')
    title = title.split('—', 1)[-1].split(' - ', 1)[-1].strip()[:110]
    own = m['breaks_property']
    r = m.get('checks', {}).get(own, {})
    mech = (r.get('mechanisms') or [''])[0].replace('mechanism: ', '').split('  (seen')[0][:90]
    det = f"{own}: {'**caught**' if r.get('detected') else 'missed'} {('`' + mech + '`') if mech else ''}"
    others = sorted(c for c, r_ in m.get('checks', {}).items() if c != own and r_.get('detected'))
    if others:
        det += '<br>also caught by ' + ', '.join(others)
    rows.append(f"| {m['id']} | {title} | {det} | {m.get('strengthened', '')} |")
print('| seed | change (one line from the author\'s notes) | quick check result (first mechanism reported) | check strengthened because of it |')
print('|---|---|---|---|')
print('\n'.join(rows))
